"""C17 - parametric shape families generate exactly the documented shapes (structural part)."""

from __future__ import annotations

import ast
import math
import re
from fractions import Fraction

from ..algebra import Poly
from ..index import AnalysisError, FuncInfo
from ..interp import Interp
from ..report import Result
from ..values import D0, Val

EXPLANATION = (
    "Tables and closed forms of coxeter.families read from the AST: TAB-1 per truncation family the plane list and "
    "the plane-type list have the same length, rows are 3-vectors, types lie in {0,1,2} and all occur; DOM-1 the domain "
    "guards in get_shape (chained comparisons raising ValueError before any construction) equal the domain stated in "
    "the class docstring (numeric bounds; s*sqrt(5) and S^2 through a small translator) and the fixed b passed to "
    "make_vertices equals the documented one; DOM-2 the truncated-tetrahedron reparametrisation c = 3 - 2 t maps [0,1] "
    "onto Family323Plus' c-domain with a = 1 admissible; UV-1 unit-volume identities of the uniform families in the "
    "closed-form normal form (prism area*h = V, pyramid area*h/3 = V with base at -h/4 and apex at 3h/4, dipyramid "
    "2*area*h/3 = V with apexes at +-h, antiprism n-gon area n/4 cot(pi/n) s^2, opposite n-gons at +-h/2 twisted by "
    "pi/n), _make_ngon (first vertex at angle 0 + angle, area scale sqrt(area / (n/2 sin(2 pi/n))), n < 3 raises "
    "ValueError), vertex counts by construction; DOI-1 the DOI maps list exactly the documented DOIs, unknown DOIs reach "
    "raise KeyError and _KeyedDefaultDict stores the factory result under the requested key. That intermediate "
    "parameters give the exact half-space intersection and that all edges of the uniform families are equal "
    "(trigonometric identities) are not decided."
)
PSF = "coxeter.families.plane_shape_families"
COMMON = "coxeter.families.common"
GOLD = (1 + 5 ** 0.5) / 2


def run(index, tier="quick", seed=0) -> Result:
    res = Result("C17", EXPLANATION)
    _tables_and_domains(res, index)
    _uniform(res, index)
    _doi(res, index)
    _dtype(res, index)
    from ..parallel import report as _copy1
    _copy1(res, index, lambda f: f['module'].startswith('coxeter.families'))
    return res


# --------------------------------------------------------------------------------------------- planes / domains
def _num(node, names):
    """numeric value of a small constant expression (names: s, S, cls.s, cls.S, np.sqrt)."""
    if isinstance(node, ast.Constant) and isinstance(node.value, (int, float)):
        return float(node.value)
    if isinstance(node, ast.UnaryOp) and isinstance(node.op, ast.USub):
        v = _num(node.operand, names)
        return -v if v is not None else None
    if isinstance(node, ast.Name) and node.id in names:
        return names[node.id]
    if isinstance(node, ast.Attribute) and isinstance(node.value, ast.Name) and node.value.id in ("cls", "self") and node.attr in names:
        return names[node.attr]
    if isinstance(node, ast.BinOp):
        l, r = _num(node.left, names), _num(node.right, names)
        if l is None or r is None:
            return None
        if isinstance(node.op, ast.Mult):
            return l * r
        if isinstance(node.op, ast.Div):
            return l / r
        if isinstance(node.op, ast.Add):
            return l + r
        if isinstance(node.op, ast.Sub):
            return l - r
        if isinstance(node.op, ast.Pow):
            return l ** r
    if isinstance(node, ast.Call) and ast.unparse(node.func) in ("np.sqrt", "sqrt", "math.sqrt") and node.args:
        v = _num(node.args[0], names)
        return math.sqrt(v) if v is not None and v >= 0 else None
    return None


def _doc_bound(txt):
    """translate a documented bound: numbers, s\\sqrt{5}, S^2."""
    t = txt.strip().replace(" ", "")
    try:
        return float(t)
    except ValueError:
        pass
    t = t.replace("\\sqrt{5}", "*5**0.5").replace("^", "**")
    try:
        return float(eval(t, {"__builtins__": {}}, {"s": 1 / GOLD, "S": GOLD}))
    except Exception:
        return None


def _tables_and_domains(res, index):
    mod = index.module(PSF)
    fams = [c for c in mod.classes.values() if c.is_subclass_of("TruncationPlaneShapeFamily") and c.name != "TruncationPlaneShapeFamily"]
    ntab = 0
    domains = {}
    for c in sorted(fams, key=lambda c: c.name):
        names = {"golden_ratio": GOLD}
        for k, v in c.class_attrs.items():
            val = _num(v, names)
            if val is not None:
                names[k] = val
        # ---- TAB-1
        if "_planes" in c.class_attrs:
            ntab += 1
            planes = c.class_attrs["_planes"]
            types = c.class_attrs.get("_plane_types")
            k = f"{c.name}:tables"
            where = f"{c.module.relpath}:{c.node.lineno}"
            try:
                rows = planes.args[0].elts
                tys = [ast.literal_eval(e) for e in types.args[0].elts]
            except Exception:
                res.not_in_fragment.append(f"TAB-1 {k}: tables are not literal np.array([...]) displays")
                continue
            probs = []
            if len(rows) != len(tys):
                probs.append(f"{len(rows)} planes but {len(tys)} plane types")
            if any(not isinstance(r, ast.List) or len(r.elts) != 3 for r in rows):
                probs.append("a plane row is not a 3-vector")
            if not set(tys) <= {0, 1, 2}:
                probs.append(f"plane types {sorted(set(tys) - {0, 1, 2})} outside {{0,1,2}}")
            if set(tys) != {0, 1, 2}:
                probs.append(f"plane types used: {sorted(set(tys))} (a, b, c all needed)")
            bad_rows = [i for i, r in enumerate(rows) if isinstance(r, ast.List) and any(_num(e, names) is None for e in r.elts)]
            if bad_rows:
                probs.append(f"rows {bad_rows[:3]} do not fold to numbers")
            zero_rows = [i for i, r in enumerate(rows) if isinstance(r, ast.List) and all((_num(e, names) or 0) == 0 for e in r.elts)]
            if zero_rows:
                probs.append(f"zero normal in rows {zero_rows}")
            # each plane must come with its mirror image (the families are centrally symmetric)
            vecs = [tuple(round(_num(e, names) or 0, 9) for e in r.elts) for r in rows if isinstance(r, ast.List)]
            if c.name != "Family323Plus":
                unpaired = [v for v in vecs if tuple(-x for x in v) not in vecs]
                if unpaired:
                    probs.append(f"planes without their mirror image: {unpaired[:2]}")
            if probs:
                res.bad("TAB-1", k, where, f"{c.name}: " + "; ".join(probs))
            else:
                res.ok("TAB-1", k, sample={"family": c.name, "planes": len(rows), "types": {t: tys.count(t) for t in (0, 1, 2)}})
        # ---- DOM-1
        gs = c.methods.get("get_shape")
        if gs is None:
            continue
        where = f"{gs.file}:{gs.lineno}"
        doc = c.docstring()
        documented = {m.group(1): (_doc_bound(m.group(2)), _doc_bound(m.group(3)))
                      for m in re.finditer(r"(\w+)\s*(?::math:`)?\s*\\in\s*\[([^,\]]+),\s*([^\]]+)\]", doc)}
        # the accepted set of each parameter is decided by constant-folding the guard tests (whatever their spelling:
        # `not lo <= p <= hi`, `p < lo or p > hi`, a test bound to a local first) at probe values around the documented
        # bounds; a guard is an `if` whose body raises
        from ..astutil import single_assignments
        env_assign = single_assignments(gs.node)
        guard_ifs = [n for n in ast.walk(gs.node) if isinstance(n, ast.If) and any(isinstance(x, ast.Raise) for x in ast.walk(ast.Module(body=n.body, type_ignores=[])))]
        build_line = min([x.lineno for x in ast.walk(gs.node) if isinstance(x, ast.Call) and ("make_vertices" in ast.unparse(x.func) or ast.unparse(x.func).endswith("get_shape"))] or [10 ** 9])

        def _truth(node, binding, depth=0):
            """True / False / None (not foldable) of a guard test with the parameter bound to a number."""
            if depth > 6:
                return None
            if isinstance(node, ast.Name) and node.id in env_assign and node.id not in binding:
                return _truth(env_assign[node.id], binding, depth + 1)
            if isinstance(node, ast.UnaryOp) and isinstance(node.op, ast.Not):
                v = _truth(node.operand, binding, depth + 1)
                return None if v is None else (not v)
            if isinstance(node, ast.BoolOp):
                vals = [_truth(v, binding, depth + 1) for v in node.values]
                if any(v is None for v in vals):
                    return None
                return all(vals) if isinstance(node.op, ast.And) else any(vals)
            if isinstance(node, ast.Compare):
                nums = [_num(x, {**names, **binding}) for x in [node.left] + list(node.comparators)]
                if any(v is None for v in nums):
                    return None
                ok_ = True
                for op, l_, r_ in zip(node.ops, nums, nums[1:]):
                    ok_ = ok_ and {ast.Lt: l_ < r_, ast.LtE: l_ <= r_, ast.Gt: l_ > r_, ast.GtE: l_ >= r_, ast.Eq: l_ == r_,
                                   ast.NotEq: l_ != r_}.get(type(op), None)
                    if ok_ is None:
                        return None
                return bool(ok_)
            return None

        def _outcomes(pname, value):
            """reachable ends of get_shape with pname = value and the other parameters free: the body is walked as a decision
            tree over its tests (a test that does not fold for this binding takes both branches).
            -> set of ('raise', exception name, built before?) / ('return', None, built?)"""
            out = set()

            def has_build(node):
                return any(isinstance(x, ast.Call) and ("make_vertices" in ast.unparse(x.func) or ast.unparse(x.func).endswith("get_shape")) for x in ast.walk(node))

            def walk(stmts, built):
                """-> True if control can fall off the end of this block"""
                for i_, s_ in enumerate(stmts):
                    if isinstance(s_, ast.Raise):
                        exc = s_.exc
                        nm = exc.func.id if isinstance(exc, ast.Call) and isinstance(exc.func, ast.Name) else (exc.id if isinstance(exc, ast.Name) else "?")
                        out.add(("raise", nm, built))
                        return False
                    if isinstance(s_, ast.Return):
                        out.add(("return", None, built or (s_.value is not None and has_build(s_.value))))
                        return False
                    if isinstance(s_, ast.If):
                        t = _truth(s_.test, {pname: value})
                        falls = []
                        if t is not False:
                            falls.append(walk(s_.body, built))
                        if t is not True:
                            falls.append(walk(s_.orelse, built))
                        if not any(falls):
                            return False
                        continue
                    if isinstance(s_, (ast.For, ast.While, ast.With, ast.Try)):
                        return True          # not a shape the guards of get_shape take: stop judging (handled by the caller)
                    if has_build(s_):
                        built = True
                return True
            fell = walk([x for x in gs.node.body if not (isinstance(x, ast.Expr) and isinstance(x.value, ast.Constant))], False)
            if fell:
                out.add(("return", None, False))
            return out

        params = [p for p in gs.params[1:]]
        guards = {}
        for p in params:
            k = f"{c.name}.get_shape:{p}"
            if p not in documented or None in documented[p]:
                probe_lo, probe_mid = -1e9, 0.0
            else:
                probe_lo, probe_mid = documented[p][0] - 1e6, (documented[p][0] + documented[p][1]) / 2
            decided = _outcomes(p, probe_lo) != _outcomes(p, probe_mid)
            if not decided:
                res.bad("DOM-1", k + ":noguard", where, f"{c.name}.get_shape does not check the domain of `{p}` before constructing")
                continue
            if p not in documented or None in documented[p]:
                res.not_in_fragment.append(f"DOM-1 {k}: documented domain not readable")
                continue
            dlo, dhi = documented[p]
            guards[p] = (dlo, dhi, "ValueError")
            eps = 1e-9 * max(1.0, abs(dlo), abs(dhi))
            probes = [("below", dlo - eps, True), ("lower bound", dlo, False), ("middle", (dlo + dhi) / 2, False), ("upper bound", dhi, False), ("above", dhi + eps, True)]
            problems = []
            for what_, val_, want_raise in probes:
                outs_ = _outcomes(p, val_)
                rets_ = [o for o in outs_ if o[0] == "return"]
                raises_ = [o for o in outs_ if o[0] == "raise"]
                if want_raise and rets_:
                    problems.append(f"{p} = {val_:.9g} ({what_} the documented domain [{dlo:.6g}, {dhi:.6g}]) is accepted")
                elif want_raise and any(o[1] != "ValueError" for o in raises_):
                    problems.append(f"{p} outside its domain raises {sorted({o[1] for o in raises_ if o[1] != 'ValueError'})[0]}, not ValueError")
                elif not want_raise and not rets_:
                    problems.append(f"{p} = {val_:.9g} ({what_} of the documented domain [{dlo:.6g}, {dhi:.6g}]) is refused")
                if want_raise and any(o[2] for o in raises_):
                    problems.append("the domain is checked after the construction")
            if problems:
                res.bad("DOM-1", k, where, f"{c.name}.get_shape: " + "; ".join(sorted(set(problems))[:3]))
            else:
                res.ok("DOM-1", k, sample={"family": c.name, "param": p, "domain": [round(dlo, 6), round(dhi, 6)]})
        domains[c.name] = {p: (v[0], v[1], v[2]) for p, v in guards.items()}
        # fixed b
        mb = re.search(r"\$?b\$?`?\s*parameter is always equal to (\d+)", doc.replace("\n", " "))
        calls = [x for x in ast.walk(gs.node) if isinstance(x, ast.Call) and ast.unparse(x.func).endswith("make_vertices")]
        if mb and calls:
            k = f"{c.name}.get_shape:b"
            b = _num(calls[0].args[1], names) if len(calls[0].args) >= 2 else None
            if b is not None and abs(b - float(mb.group(1))) < 1e-12:
                res.ok("DOM-1", k)
            else:
                res.bad("DOM-1", k, where, f"{c.name}.get_shape passes b = {b} but documents b = {mb.group(1)}")
    if ntab < 3:
        raise AnalysisError(f"only {ntab} plane tables found (3 confirmed)")
    _bit_labels(res, fams, [c for c in mod.classes.values() if c.is_subclass_of("TruncationPlaneShapeFamily")])
    # ---- DOM-2
    tt = mod.classes.get("TruncatedTetrahedronFamily")
    if tt is None:
        raise AnalysisError("anchor vanished: TruncatedTetrahedronFamily")
    gs = tt.methods["get_shape"]
    where = f"{gs.file}:{gs.lineno}"
    tg = domains.get("TruncatedTetrahedronFamily", {}).get("truncation")
    base = domains.get("Family323Plus", {})
    cexpr = None
    call = None
    assigns = {n.targets[0].id: n.value for n in ast.walk(gs.node)
               if isinstance(n, ast.Assign) and len(n.targets) == 1 and isinstance(n.targets[0], ast.Name)}
    for n in ast.walk(gs.node):
        if isinstance(n, ast.Call) and ast.unparse(n.func).endswith("get_shape"):
            call = n
    tparam = gs.params[1] if len(gs.params) > 1 else "truncation"
    if call is not None and len(call.args) == 2:
        # the second argument (the c of the base family), looked through one local temporary
        cexpr = call.args[1]
        if isinstance(cexpr, ast.Name) and cexpr.id in assigns:
            cexpr = assigns[cexpr.id]
    if tg and base.get("c") and cexpr is not None and call is not None and len(call.args) == 2 \
            and all(_num(cexpr, {tparam: t}) is not None for t in (tg[0], tg[1])):
        ends = sorted(_num(cexpr, {tparam: t}) for t in (tg[0], tg[1]))
        a_val = _num(call.args[0], {})
        ok = abs(ends[0] - base["c"][0]) < 1e-12 and abs(ends[1] - base["c"][1]) < 1e-12 and a_val is not None \
            and base["a"][0] <= a_val <= base["a"][1]
        if ok:
            res.ok("DOM-2", "TruncatedTetrahedronFamily", sample={"image_of_[0,1]": ends, "a": a_val})
        else:
            res.bad("DOM-2", "TruncatedTetrahedronFamily", where, f"truncation in [{tg[0]}, {tg[1]}] maps to c in {ends} with a = {a_val}; "
                    f"Family323Plus needs c in [{base['c'][0]}, {base['c'][1]}], a in [{base['a'][0]}, {base['a'][1]}]")
    else:
        res.not_in_fragment.append("DOM-2: reparametrisation not recovered")


def _bit_labels(res, fams, classes):
    """BITS-1: a set of planes encoded as one number, sum of 2**i over its members (`mask @ np.exp2(np.arange(n))`,
    `2.0 ** np.arange(n)`, `1 << np.arange(n)`), is injective only while all n bits fit the number type: 53 for a float64
    label, 63 for int64.  n is the number of planes of a family - the literal tables give it (the largest one counts)."""
    nmax = 0
    for c in fams:
        ty = c.class_attrs.get("_plane_types")
        try:
            nmax = max(nmax, len(ty.args[0].elts))
        except Exception:
            pass
    for c in classes:
        for fn in c.methods.values():
            for n in ast.walk(fn.node):
                kind = None
                if isinstance(n, ast.Call) and ast.unparse(n.func).split(".")[-1] == "exp2" and n.args and "arange" in ast.unparse(n.args[0]):
                    kind = "float"
                elif isinstance(n, ast.BinOp) and isinstance(n.op, ast.Pow) and "arange" in ast.unparse(n.right) \
                        and isinstance(n.left, ast.Constant) and n.left.value in (2, 2.0):
                    kind = "float" if isinstance(n.left.value, float) else "int"
                elif isinstance(n, ast.BinOp) and isinstance(n.op, ast.LShift) and "arange" in ast.unparse(n.right) \
                        and isinstance(n.left, ast.Constant) and n.left.value == 1:
                    kind = "int"
                elif isinstance(n, ast.Call) and ast.unparse(n.func).split(".")[-1] == "power" and len(n.args) == 2 and "arange" in ast.unparse(n.args[1]) \
                        and isinstance(n.args[0], ast.Constant) and n.args[0].value in (2, 2.0):
                    kind = "float" if isinstance(n.args[0].value, float) else "int"
                if kind is None:
                    continue
                limit = 53 if kind == "float" else 63
                k = f"{c.name}.{fn.name}:bit-labels"
                if not nmax:
                    raise AnalysisError("BITS-1: number of planes not recovered from the tables")
                if nmax > limit:
                    res.bad("BITS-1", k, f"{fn.file}:{n.lineno}", f"{c.name}.{fn.name} labels sets of planes by `{ast.unparse(n)[:50]}` (one bit per plane, {kind} arithmetic: "
                            f"exact up to {limit} bits) while the largest family has {nmax} planes: two different sets that share a high plane and differ only in "
                            "low ones get the same label, and the vertices they stand for are merged")
                else:
                    res.ok("BITS-1", k, sample={"encoding": ast.unparse(n)[:50], "planes": nmax, "bits": limit})


# --------------------------------------------------------------------------------------------- uniform families
def _derived_planes(fn, r, ngons, it):
    """n-gons obtained from a returned n-gon by overwriting its z column (`top = bottom.copy(); top[:, 2] = h / 2`): a store
    into a fresh copy adds a plane with the same area and angle, a store into the returned array itself moves that plane.
    Any other element store / in-place update of an n-gon array is outside the fragment (-> None, no verdict)."""
    from ..astutil import single_assignments
    leaves = [e for e in r["events"] if e.type == "leave" and e.f.get("value") is not None
              and ("ret", "_make_ngon") in e.value.tags and len(e.path) <= 2]
    if len(leaves) != len(ngons):
        return ngons
    ids = {it.val_id(e.value): i for i, e in enumerate(leaves)}
    if len(ids) != len(ngons):
        return ngons
    env1 = dict(single_assignments(fn.node))
    # a local that is bound once and then has elements stored into it is still bound once
    binds = {}
    for n_ in ast.walk(fn.node):
        if isinstance(n_, ast.Assign):
            for t_ in n_.targets:
                for x_ in ([t_] if isinstance(t_, ast.Name) else [y for y in ast.walk(t_) if isinstance(y, ast.Name) and isinstance(y.ctx, ast.Store)]):
                    binds.setdefault(x_.id, []).append(n_.value if (len(n_.targets) == 1 and isinstance(t_, ast.Name)) else None)
        elif isinstance(n_, (ast.AugAssign, ast.AnnAssign, ast.For, ast.comprehension, ast.NamedExpr)):
            for y in ast.walk(n_.target):
                if isinstance(y, ast.Name) and isinstance(y.ctx, ast.Store):
                    binds.setdefault(y.id, []).append(None)
    for k_, v_ in binds.items():
        if len(v_) == 1 and v_[0] is not None:
            env1.setdefault(k_, v_[0])
    out = [dict(a) for a in ngons]

    def ngon_of(v):
        return ids.get(it.val_id(v)) if v is not None else None

    touched = False
    for e in r["events"]:
        if len(e.path) > 1:
            continue
        if e.type == "local-store" and ngon_of(e.f.get("base")) is not None:
            touched = True
            i = ngon_of(e.base)
            idx = e.index
            col2 = idx.kind == "indextuple" and idx.items and len(idx.items) == 2 and idx.items[0].kind == "slice" \
                and idx.items[0].extra is not None and idx.items[0].extra.lower is None and idx.items[0].extra.upper is None \
                and idx.items[0].extra.step is None and idx.items[1].has_const() and idx.items[1].const in (2, -1)
            if not col2 or not isinstance(e.node, ast.Assign) or e.value.sym is None:
                return None
            if ("ret", "_make_ngon") in e.base.tags:
                out[i] = dict(out[i], z=e.value, __moved=True)            # the returned array itself is moved
                continue
            src = env1.get(e.name)
            is_copy = isinstance(src, ast.Call) and (
                (isinstance(src.func, ast.Attribute) and src.func.attr == "copy" and isinstance(src.func.value, ast.Name))
                or (ast.unparse(src.func) in ("np.copy", "numpy.copy", "np.array", "numpy.array") and src.args and isinstance(src.args[0], ast.Name)
                    and not any(k.arg == "copy" for k in src.keywords)))
            if not is_copy:
                return None
            if any(o.get("__copy_of") == e.name for o in out):
                return None                                  # stored twice into the same copy
            out.append(dict(ngons[i], z=e.value, __copy_of=e.name))
    if not touched:
        # an in-place update of an n-gon array that is not a plain element store
        for n_ in ast.walk(fn.node):
            if isinstance(n_, ast.AugAssign) and isinstance(n_.target, (ast.Subscript, ast.Name)):
                b_ = n_.target.value if isinstance(n_.target, ast.Subscript) else n_.target
                if isinstance(b_, ast.Name) and isinstance(env1.get(b_.id), ast.Call) and "_make_ngon" in ast.unparse(env1[b_.id]):
                    return None
        return ngons
    for n_ in ast.walk(fn.node):
        if isinstance(n_, ast.AugAssign) and isinstance(n_.target, (ast.Subscript, ast.Name)):
            return None
    return out


def _uniform(res, index):
    mod = index.module(COMMON)
    n_atom = Poly.atom("n")
    nval = Val(kind="int", dim=D0, sym=n_atom, pdeps=frozenset(["n"]))
    one = Poly.const(1)

    def analyse(cname):
        c = mod.classes.get(cname)
        if c is None:
            raise AnalysisError(f"anchor vanished: {cname}")
        fn = c.lookup("make_vertices")
        it = Interp(index)
        r = it.run_entry(fn, c, args={"n": nval})
        if not r["returns"]:
            raise AnalysisError(f"{cname}.make_vertices has no normal return")
        env = r["returns"][0][1].env
        ngons = []
        for e in r["events"]:
            if e.type == "enter" and not e.entry and e.callee.name == "_make_ngon":
                a = {}
                names = e.callee.params
                for i, v in enumerate(e.argvals):
                    a[names[i]] = v
                a.update(e.kwvals)
                ngons.append(a)
        ngons = _derived_planes(fn, r, ngons, it)
        return c, fn, env, ngons, r

    def sym(env, k):
        v = env.get(k)
        return v.sym if v is not None else None

    def zsym(a):
        z = a.get("z")
        if z is None:
            return Poly.const(0)
        return z.sym

    def area_of(ngons):
        a_ = ngons[0].get("area") if ngons else None          # (None: outside the fragment)
        return a_.sym if a_ is not None else None

    def apex_rows(env):
        """z coordinates of literal point displays [[x, y, z], ...] bound to any local (the apex / apexes)."""
        out = []
        for v in env.values():
            if v is not None and v.items and all(it is not None and it.items is not None and len(it.items) == 3 for it in v.items):
                zs = [it.items[2].sym for it in v.items]
                if all(z is not None for z in zs):
                    out.append(zs)
        return out

    # prism (local names carry no meaning: the height is the distance of the two n-gon planes)
    c, fn, env, ngons, r = analyse("UniformPrismFamily")
    where = f"{fn.file}:{fn.lineno}"
    area = area_of(ngons)
    if area is not None and len(ngons) == 1 and ngons[0].get("__moved"):
        _verdict(res, False, "UV-1", "UniformPrismFamily", where, "area*h = V with two equal n-gons at -h/2 and +h/2",
                 f"one n-gon array only, whose z column is overwritten in place (z = {zsym(ngons[0])}): both faces are the same rows")
    elif area is None or len(ngons or ()) != 2:
        res.not_in_fragment.append("UV-1 prism")
    else:
        h = zsym(ngons[1]) - zsym(ngons[0])
        ok = (area * h == one or area * (-h) == one) and all(a.get("area") is not None and a["area"].sym == area for a in ngons) \
            and (zsym(ngons[0]) + zsym(ngons[1])).is_zero()
        _verdict(res, ok, "UV-1", "UniformPrismFamily", where, "area*h = V with two equal n-gons at -h/2 and +h/2",
                 f"area*h = {area * h}, z = {zsym(ngons[0])}, {zsym(ngons[1])}")
    # pyramid
    c, fn, env, ngons, r = analyse("UniformPyramidFamily")
    where = f"{fn.file}:{fn.lineno}"
    area = area_of(ngons)
    apx = [zs for zs in apex_rows(env) if len(zs) == 1]
    if area is None or len(ngons or ()) != 1 or len(apx) != 1:
        res.not_in_fragment.append("UV-1 pyramid")
    else:
        az = apx[0][0]
        h = az - zsym(ngons[0])
        third = Poly.const(Fraction(1, 3))
        ok = (area * h * third == one) and (zsym(ngons[0]) + h * Poly.const(Fraction(1, 4))).is_zero()
        _verdict(res, ok, "UV-1", "UniformPyramidFamily", where, "area*h/3 = V, base at -h/4, one apex at 3h/4 (centroid at the origin)",
                 f"area*h/3 = {area * h * third}, base z = {zsym(ngons[0])}, apex z = {az}")
    # dipyramid
    c, fn, env, ngons, r = analyse("UniformDipyramidFamily")
    where = f"{fn.file}:{fn.lineno}"
    area = area_of(ngons)
    apx = [zs for zs in apex_rows(env) if len(zs) == 2]
    if area is None or len(ngons or ()) != 1 or len(apx) != 1:
        res.not_in_fragment.append("UV-1 dipyramid")
    else:
        zs = apx[0]
        two3 = Poly.const(Fraction(2, 3))
        ok = (zs[0] + zs[1]).is_zero() and (area * zs[0] * two3 == one or area * zs[1] * two3 == one) and zsym(ngons[0]).is_zero()
        _verdict(res, ok, "UV-1", "UniformDipyramidFamily", where, "2*area*h/3 = V, base at z = 0, apexes at +-h",
                 f"2*area*h/3 = {area * zs[0] * two3}, apex z = {zs}")
    # antiprism
    c, fn, env, ngons, r = analyse("UniformAntiprismFamily")
    where = f"{fn.file}:{fn.lineno}"
    area = area_of(ngons)
    if area is None or len(ngons or ()) != 2:
        res.not_in_fragment.append("UV-1 antiprism")
    else:
        tan_pn = Poly.atom(f"tan<{(Poly.atom('pi') * n_atom.pow(-1))!r}>")
        coeff = n_atom * Poly.const(Fraction(1, 4)) * tan_pn.pow(-1)
        # some local (the edge length) satisfies area = n/4 cot(pi/n) s^2
        edge = [v.sym for v in env.values() if v is not None and v.sym is not None and not v.has_const() and coeff * v.sym * v.sym == area]
        angles = sorted(repr(a["angle"].sym) if a.get("angle") is not None and a["angle"].sym is not None else "0" for a in ngons)
        twist = {repr(Poly.atom("pi") * n_atom.pow(-1)), "0"} == set(angles)
        ok = bool(edge) and (zsym(ngons[0]) + zsym(ngons[1])).is_zero() and not (zsym(ngons[1]) - zsym(ngons[0])).is_zero() \
            and twist and all(a["area"].sym == area for a in ngons)
        _verdict(res, ok, "UV-1", "UniformAntiprismFamily", where, "n-gon area n/4 cot(pi/n) s^2, n-gons at -+h/2, twisted by pi/n",
                 f"area = {area}; edge candidates {len(edge)}; twist {angles}")
    # regular n-gon
    c, fn, env, ngons, r = analyse("RegularNGonFamily")
    where = f"{fn.file}:{fn.lineno}"
    if len(ngons or ()) != 1:
        res.not_in_fragment.append("UV-1 n-gon")
    else:
        a = ngons[0]
        ok = a.get("area") is not None and a["area"].sym == one and (a.get("angle") is None or (a["angle"].sym is not None and a["angle"].sym.is_zero()) or a["angle"].const == 0) \
            and zsym(a).is_zero()
        _verdict(res, ok, "UV-1", "RegularNGonFamily", where, "unit area, first vertex on the +x axis (angle 0), z = 0", f"args {a}")
    # _make_ngon
    mk = mod.functions.get("_make_ngon")
    if mk is None:
        raise AnalysisError("anchor vanished: _make_ngon")
    where = f"{mk.file}:{mk.lineno}"
    it = Interp(index)
    av = Val(kind="float", dim=D0, sym=Poly.atom("A"), pdeps=frozenset(["area"]))
    ang = Val(kind="float", dim=D0, sym=Poly.atom("phi0"), pdeps=frozenset(["angle"]))
    r = it.run_entry(mk, None, args={"n": nval, "area": av, "angle": ang})
    env = r["returns"][0][1].env if r["returns"] else {}
    sin2 = Poly.atom(f"sin<{(Poly.const(2) * Poly.atom('pi') * n_atom.pow(-1))!r}>")
    want0 = Poly.const(Fraction(1, 2)) * n_atom * sin2
    a0 = next((v for v in env.values() if v.sym is not None and v.sym == want0), None)
    raises = [x for x in r["raises"] if x[0] == "ValueError"]
    # recognise-then-judge: `wrong` = a recognised construct contradicts the definition (violation);
    # `unknown` = a formulation the recogniser does not know (analysis error, never a violation)
    wrong, unknown = [], []
    import math as _math

    def _numval(node_):
        return _num(node_, {"pi": _math.pi}) if not (isinstance(node_, ast.Attribute) and ast.unparse(node_) in ("np.pi", "math.pi")) else _math.pi

    def _two_pi(node_):
        try:
            txt = ast.unparse(node_).replace("np.pi", "pi").replace("math.pi", "pi")
            v_ = _num(ast.parse(txt, mode="eval").body, {"pi": _math.pi})
        except Exception:
            v_ = None
        return v_ is not None and abs(v_ - 2 * _math.pi) < 1e-12

    lin = [n_ for n_ in ast.walk(mk.node) if isinstance(n_, ast.Call) and ast.unparse(n_.func) in ("np.linspace", "linspace")]
    if lin:
        c0 = lin[0]
        kws = {k.arg: k.value for k in c0.keywords}
        start = c0.args[0] if c0.args else kws.get("start")
        stop = c0.args[1] if len(c0.args) > 1 else kws.get("stop")
        num = c0.args[2] if len(c0.args) > 2 else kws.get("num")
        endp = c0.args[3] if len(c0.args) > 3 else kws.get("endpoint")
        if not (start is not None and _num(start, {}) == 0.0):
            wrong.append("linspace does not start at 0")
        if not (stop is not None and _two_pi(stop)):
            wrong.append("linspace does not stop at 2 pi")
        if not (isinstance(num, ast.Name) and num.id == mk.params[0]):
            wrong.append("linspace does not produce n angles")
        if not (isinstance(endp, ast.Constant) and endp.value is False):
            wrong.append("linspace includes the end point (first vertex duplicated)")
    elif any(isinstance(n_, ast.Call) and ast.unparse(n_.func) in ("np.arange", "arange") for n_ in ast.walk(mk.node)):
        wrong.append("angles come from arange with a float step: the number of angles is n or n + 1 depending on rounding")
    else:
        unknown.append("generation of the n angles not recognised")
    trig = [e for e in r["events"] if e.type == "trigcall" and e.fn in ("cos", "sin") and e.arg is not None and e.arg.kind not in ("float", "int")]
    if trig and not all("angle" in e.arg.pdeps for e in trig):
        wrong.append("the rotation `angle` does not reach the vertex angles")
    elif not trig:
        unknown.append("cos / sin of the vertex angles not found")
    want_scale = (Poly.atom("A").div(want0)).pow(Fraction(1, 2))

    def _is_scale(v):
        return v is not None and v.sym is not None and v.sym == want_scale
    # the xy coordinates are multiplied by sqrt(area / area_0): in place, through a named factor, or out of place
    scale_ok = any(e.type == "augassign" and e.op == "Mult" and _is_scale(e.rhs) for e in r["events"]) \
        or any(e.type == "local-store" and e.value is not None and e.value.extra and isinstance(e.value.extra, tuple)
               and e.value.extra[0] == "factor" and _is_scale(e.value.extra[1]) for e in r["events"]) \
        or len([e for e in r["events"] if e.type == "scaled" and _is_scale(e.factor) and e.array is not None
                and any(isinstance(t_, tuple) and t_[0] == "ret" and t_[1] in ("numpy.cos", "numpy.sin") for t_ in e.array.tags)]) >= 2
    if a0 is None:
        cands = [v for v in env.values() if v is not None and v.sym is not None and "sin<" in repr(v.sym) and not v.has_const()]
        (wrong if cands else unknown).append(f"area of the unit-circumradius n-gon is not n/2 sin(2 pi/n)" + (f" but {cands[0].sym}" if cands else " (not found)"))
    if not scale_ok:
        res_v = r["result"]
        if res_v is not None and "area" not in res_v.pdeps:
            wrong.append("`area` does not reach the vertices")
        else:
            facs = [e.rhs.sym for e in r["events"] if e.type == "augassign" and e.op == "Mult" and e.rhs.sym is not None]
            (wrong if facs else unknown).append("coordinates are not scaled by sqrt(area / area_0)" + (f" but by {facs[0]}" if facs else ""))
    guard = any(e.type == "cmp" and e.form == "compare" and e.op == "Lt" and e.left.sym == n_atom and e.right.is_number_const()
                and e.right.const == 3 for e in r["events"])
    if not raises:
        wrong.append("n < 3 does not raise ValueError")
    elif not guard:
        gs_ = [e for e in r["events"] if e.type == "cmp" and e.form == "compare" and (e.left.sym == n_atom or e.right.sym == n_atom)]
        (wrong if gs_ else unknown).append("the guard is not n < 3")
    if wrong:
        res.bad("UV-1", "_make_ngon", where, "_make_ngon: expected theta = linspace(0, 2 pi, n, endpoint=False) + angle; area_0 = n/2 sin(2 pi/n); "
                "scale sqrt(area/area_0); n < 3 -> ValueError; found " + "; ".join(wrong))
    elif unknown:
        raise AnalysisError("_make_ngon left the recognised fragment: " + "; ".join(unknown))
    else:
        res.ok("UV-1", "_make_ngon", sample={"family": "_make_ngon", "identity": "linspace(0, 2 pi, n, endpoint=False) + angle, scale sqrt(area / (n/2 sin(2 pi/n)))"})


def _verdict(res, ok, rule, key, where, what, detail):
    if ok:
        res.ok(rule, key, sample={"family": key, "identity": what})
    else:
        res.bad(rule, key, where, f"{key}: expected {what}; found {detail}")


# --------------------------------------------------------------------------------------------- DOI
def _doi(res, index):
    mod = index.module("coxeter.families.doi_data_repositories")
    init = index.module("coxeter.families")
    # the DOIs the module knows: the DOI-like keys of its module-level literal tables (whatever their number and layout)
    keys = set()
    for nm, node in mod.constants.items():
        if isinstance(node, ast.Dict):
            for k in node.keys:
                if isinstance(k, ast.Constant) and isinstance(k.value, str) and re.match(r"^10\.\d{4,}/\S+$", k.value):
                    keys.add(k.value)
    if not keys:
        raise AnalysisError("anchor vanished: no module-level table keyed by DOI in doi_data_repositories")
    # documented DOIs: the string following DOI_SHAPE_REPOSITORIES in families/__init__.py
    doc = ""
    body = init.tree.body
    for i, s in enumerate(body):
        if isinstance(s, ast.Assign) and isinstance(s.targets[0], ast.Name) and s.targets[0].id == "DOI_SHAPE_REPOSITORIES":
            if i + 1 < len(body) and isinstance(body[i + 1], ast.Expr) and isinstance(body[i + 1].value, ast.Constant):
                doc = body[i + 1].value.value
    documented = set(re.findall(r"\*\s*(10\.\S+?):", doc))
    where = f"{mod.relpath}:1"
    if not documented:
        res.not_in_fragment.append("DOI-1: documented DOI list not found")
    elif documented != keys:
        res.bad("DOI-1", "doi-maps", where, f"DOI maps list {sorted(keys)} but the documentation lists {sorted(documented)}")
    else:
        res.ok("DOI-1", "doi-maps", sample={"dois": sorted(keys)})
    # the documented families per DOI
    # ... decided on what the factory constructs for each DOI (abstract run with the DOI as a constant argument: lookups in
    # the literal tables, loops and comprehensions over their entries are evaluated entry by entry), not on the tables' layout
    from ..values import vconst
    fac0 = mod.functions.get("_doi_shape_collection_factory")
    if fac0 is None:
        raise AnalysisError("anchor vanished: _doi_shape_collection_factory")
    want = {"10.1103/PhysRevX.4.011024": ["Family323Plus", "Family423", "Family523"], "10.1021/nn204012y": ["TruncatedTetrahedronFamily"],
            "10.1126/science.1220869": []}
    got = {}
    tab = {}
    for doi in sorted(set(want) | keys) + ["10.0000/not-a-known-doi"]:
        it_ = Interp(index, config={"fold_branches": True})
        r_ = it_.run_entry(fac0, None, args={fac0.params[0]: vconst(doi)})
        cons = [e for e in r_["events"] if e.type == "construct"]
        got[doi] = [e.cls.name for e in cons if len(e.path) == 1 and e.cls.name != "TabulatedGSDShapeFamily"]
        tab[doi] = sum(1 for e in cons if e.cls.name == "TabulatedGSDShapeFamily")
    unknown = got.pop("10.0000/not-a-known-doi")
    tab_unknown = tab.pop("10.0000/not-a-known-doi")
    if unknown or tab_unknown:
        raise AnalysisError("DOI-1: the factory constructs families for a DOI that is in no table: its lookups are not evaluated exactly")
    if got == want and tab["10.1126/science.1220869"] >= 1 and not tab["10.1103/PhysRevX.4.011024"] and not tab["10.1021/nn204012y"]:
        res.ok("DOI-1", "doi-families")
    else:
        res.bad("DOI-1", "doi-families", where, f"the factory builds {got} (tabulated families per DOI: {tab}), documented {want} with one tabulated "
                "family for 10.1126/science.1220869 only")
    fac = mod.functions.get("_doi_shape_collection_factory")
    if fac is None:
        raise AnalysisError("anchor vanished: _doi_shape_collection_factory")
    last_if = [s for s in fac.node.body if isinstance(s, ast.If)]
    rets = [s for s in fac.node.body if isinstance(s, ast.Return)]
    rname = rets[-1].value.id if rets and isinstance(rets[-1].value, ast.Name) else None
    ok = False
    from ..astutil import resolve as _resolve
    for s in last_if:
        if rname and ast.unparse(_resolve(s.test, fac.node)).replace(" ", "") in (f"not{rname}", f"len({rname})==0", f"{rname}==[]") and any(
                isinstance(x, ast.Raise) and "KeyError" in ast.unparse(x) for x in ast.walk(s)):
            ok = True
    ok = ok and rname is not None
    _verdict(res, ok, "DOI-1", "factory:unknown-doi", f"{fac.file}:{fac.lineno}", "`if not families: raise KeyError` before `return families`", "pattern not found")
    kd = mod.classes.get("_KeyedDefaultDict")
    miss = kd.methods.get("__missing__") if kd else None
    ok = False
    if miss is not None:
        p = miss.params[1] if len(miss.params) > 1 else None
        for s in ast.walk(miss.node):
            if isinstance(s, ast.Assign):
                tg = [ast.unparse(t) for t in s.targets]
                if f"self[{p}]" in tg and isinstance(s.value, ast.Call) and [ast.unparse(a) for a in s.value.args] == [p] \
                        and "default_factory" in ast.unparse(s.value.func):
                    ok = True
    _verdict(res, ok, "DOI-1", "_KeyedDefaultDict.__missing__", f"{mod.relpath}", "self[key] = self.default_factory(key) with the requested key", "pattern not found")


# --------------------------------------------------------------------------------------------- DTYPE-1
def _dtype(res, index):
    """DTYPE-1: integer parameters are in the documented domain (a=1, c=3, truncation=0, ...).  An array built from the
    raw parameters without a dtype is an integer array for such calls; an in-place float update of it (`x += 1e-6`,
    `x /= s`) raises numpy's casting TypeError instead of returning the documented solid.  Dataflow: tag 'maybe-int' on
    np.array/asarray of raw parameters, kept by indexing and copies, dropped by any arithmetic that yields a new array."""
    n = 0
    for mname, m in sorted(index.modules.items()):
        if not mname.startswith("coxeter.families"):
            continue
        for c in m.classes.values():
            for meth in ("make_vertices", "get_shape"):
                fn = c.methods.get(meth)
                if fn is None:
                    continue
                it = Interp(index)
                try:
                    r = it.run_entry(fn, c)
                except RecursionError:
                    continue
                n += 1
                label = f"{c.name}.{meth}"
                bad = [e for e in r["events"] if e.type == "int-inplace"]
                if bad:
                    e = bad[0]
                    res.bad("DTYPE-1", f"{label}:{e.target}:{e.op}", e.where(), f"`{e.src()[:60]}` updates in place an array built from the raw parameters "
                            "(np.array without dtype): for integer parameter values (documented: a=1, c=3, truncation=0 ...) numpy refuses the "
                            "float result with a TypeError instead of returning the solid")
                else:
                    res.ok("DTYPE-1", label, nontrivial=False)
                # MEMO-3: what a family hands out is the caller's own object, never storage shared through a memoising decorator
                shared = sorted({loc[1] for (v_, s_, n_) in r["returns"] for loc in v_.all_aliases() if loc[0] == "memo"})
                if shared:
                    res.bad("MEMO-3", f"{label}:shared:{','.join(shared)}", f"{fn.file}:{fn.lineno}", f"{label} returns the array memoised by the caching decorator of "
                            f"`{shared[0]}` itself (no copy): a caller that modifies its vertices in place changes what every later call with the same "
                            "parameters returns - the family no longer generates the documented shape")
                else:
                    res.ok("MEMO-3", label, nontrivial=False)
    if n < 8:
        raise AnalysisError(f"DTYPE-1 examined only {n} family methods")
    _argflow(res, index)


def _argflow(res, index):
    """ARG-1: get_shape(p, q, ...) hands each documented parameter to the same-named parameter of make_vertices as it was
    given: the argument may depend on that parameter only.  An argument computed from *another* parameter as well
    (`a, c = min(a, c), max(a, c)`, a swap, a clamp against a sibling) generates the solid of different parameter values."""
    n = 0
    for mname, m in sorted(index.modules.items()):
        if not mname.startswith("coxeter.families"):
            continue
        for c in m.classes.values():
            fn = c.methods.get("get_shape")
            if fn is None:
                continue
            own = [p for p in fn.params[1:]]
            if len(own) < 2:
                continue
            it = Interp(index)
            try:
                r = it.run_entry(fn, c)
            except RecursionError:
                continue
            calls = [e for e in r["events"] if e.type == "enter" and not e.entry and e.callee.name == "make_vertices" and len(e.path) <= 2]
            if not calls:
                continue
            e = calls[0]
            n += 1
            bound = e.args
            bad = None
            for p in own:
                v = bound.get(p)
                if v is None or v.has_const():
                    continue
                foreign = sorted((set(v.pdeps) & set(own)) - {p})
                if foreign:
                    bad = (p, foreign)
                    break
            label = f"{c.name}.get_shape"
            if bad:
                res.bad("ARG-1", f"{label}:{bad[0]}<-{','.join(bad[1])}", e.where(), f"{label} passes to make_vertices an `{bad[0]}` that is computed from the "
                        f"parameter(s) {', '.join(bad[1])} as well (`{e.src()[:60]}`): for some documented parameter values the solid of other "
                        "parameter values is generated")
            else:
                res.ok("ARG-1", label)
    if n < 3:
        raise AnalysisError(f"ARG-1 examined only {n} get_shape -> make_vertices calls (3 confirmed)")
