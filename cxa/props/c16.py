"""C16 - queries are free of side effects."""

from __future__ import annotations

from ..components import InplaceLog, Moved
from ..entries import derive_scratch, queries
from ..index import AnalysisError, FuncInfo, PropInfo
from ..interp import Interp
from ..report import Result
from ..values import ObjRef, Val, TOP

EXPLANATION = (
    "Effect analysis (alias + write events over the inlined call graph) of every public query of every shape class "
    "(enumerated from the index: every non-setter member except diagonalize_inertia/merge_faces/sort_faces, so new "
    "members are picked up) and of the seven coxeter.io writers with the shape as receiver: Q-1 no write to "
    "non-scratch state outside the balanced temporary-move protocol (centroid/center setter ... same setter with the "
    "value saved from the getter before the move, on every normal exit); Q-2 no by-reference attribute is rebound while "
    "the shape is moved and no normal exit leaves it moved (arrays handed out earlier would be orphaned/translated); "
    "Q-3 no argument array is modified in place (aliases through asarray/atleast_2d/slices tracked); Q-5 no write to "
    "module-level state (memo tables); Q-4 io writers "
    "that modify do so on a deepcopy. Scratch attributes are derived: every read in every public entry is preceded by "
    "a write in the same entry."
)

IO_MODULE = "coxeter.io"


def byref_attrs(index):
    out = set()
    for cls in index.shape_classes():
        for name, fn, kind in queries(index, cls):
            if kind != "getter":
                continue
            it = Interp(index)
            r = it.run_entry(fn, cls)
            v = r["result"]
            if v is not None:
                for (oid, attr) in v.all_aliases():
                    if oid.startswith("self"):
                        out.add(attr)
    return out


def run(index, tier="quick", seed=0) -> Result:
    res = Result("C16", EXPLANATION)
    scratch, rb, n_entries = derive_scratch(index)
    byref = byref_attrs(index)
    res.extra["scratch_attributes"] = sorted(scratch)
    res.extra["by_reference_attributes"] = sorted(byref)
    if not {"_vertices", "_faces", "_equations"} <= byref:
        raise AnalysisError(f"by-reference getters not recognised: {sorted(byref)}")
    npairs = 0
    for cls in index.shape_classes():
        for name, fn, kind in queries(index, cls):
            npairs += 1
            _check_query(res, index, cls, f"{cls.name}.{name}", fn, cls, scratch, byref)
    # io writers
    io = index.module(IO_MODULE)
    nio = 0
    for fname, fn in sorted(io.functions.items()):
        if not fname.startswith("to_"):
            continue
        for cname in ("Polyhedron", "ConvexPolyhedron"):
            nio += 1
            cls = index.cls(cname)
            shape = Val(kind="obj", obj=ObjRef(cls, "self"), dim=TOP)
            _check_query(res, index, cls, f"io.{fname}[{cname}]", fn, None, scratch, byref,
                         args={"shape": shape}, rule_prefix="Q-4")
    res.extra["query_pairs"] = npairs
    res.extra["io_pairs"] = nio
    if npairs < 300:
        raise AnalysisError(f"only {npairs} (class, query) pairs; 323 confirmed on the pinned tree")
    if nio < 14:
        raise AnalysisError(f"only {nio} io writer pairs; 14 confirmed")
    return res


def _check_query(res, index, cls, label, fn, self_cls, scratch, byref, args=None, rule_prefix=None):
    mv = Moved(scratch, byref)
    it = Interp(index, [mv])
    r = it.run_entry(fn, self_cls, args=args)
    res.evaluations += it.stats["stmts"]
    res.unmodelled |= it.unmodelled
    bad = False
    seen = set()
    q1 = rule_prefix or "Q-1"
    for ev, what in mv.effects:
        k = f"{label}:{ev.loc[0]}.{ev.loc[1]}:{ev.mode}"
        if k in seen:
            continue
        seen.add(k)
        bad = True
        res.bad(q1, k, ev.where(), f"query {label} {what}: `{ev.src()[:70]}` (path {' -> '.join(ev.path)})")
    for ev, attr in mv.orphans:
        k = f"{label}:orphan:{attr}"
        if k in seen:
            continue
        seen.add(k)
        bad = True
        res.bad("Q-2", k, ev.where(), f"query {label} rebinds {attr} while the shape is moved: the array handed out "
                f"earlier stays displaced and is no longer the shape's array")
    for node, oids in mv.unbalanced:
        k = f"{label}:unbalanced"
        if k in seen:
            continue
        seen.add(k)
        bad = True
        res.bad("Q-2", k, f"{fn.file}:{getattr(node, 'lineno', fn.lineno)}",
                f"query {label} can exit normally with the shape still moved ({', '.join(oids)})")
    for e in r["events"]:
        if e.type == "param-inplace":
            k = f"{label}:param:{e.loc[1]}"
            if k in seen:
                continue
            seen.add(k)
            bad = True
            res.bad("Q-3", k, e.where(), f"query {label} modifies its argument `{e.loc[1]}` in place: `{e.src()[:70]}`")
    for e in r["events"]:
        if e.type == "global-write" and e.func is not None and e.func.module.name.startswith(("coxeter.shapes", "coxeter.io", "coxeter.shape_getters")):
            k = f"{label}:global:{e.name}"
            if k in seen:
                continue
            seen.add(k)
            bad = True
            res.bad("Q-5", k, e.where(), f"query {label} writes module-level state `{e.name}` (`{e.src()[:60]}`): results memoised outside the "
                    f"shape go stale after a mutation and repeated queries need not agree")
    if any(e.type == "random" for e in r["events"]):
        res.notes.append(f"{label}: result may depend on rowan.random (miniball retry path) - 'same answer' not decided")
    if not bad:
        moves = [c for c in mv.protocol_calls if c[1] in ("move", "restore")]
        res.ok(q1 if rule_prefix else "Q-1", label, nontrivial=bool(moves) or bool(r["events"]),
               sample={"query": label, "protocol": [c[1] for c in mv.protocol_calls]} if moves else None)
