"""C15 - constructors accept valid and reject invalid geometry; never keep or modify caller arrays."""

from __future__ import annotations

import ast

from ..components import Guard, TestsPassed
from ..entries import derive_scratch
from ..index import AnalysisError, FuncInfo
from ..interp import Interp
from ..report import Result

EXPLANATION = (
    "Per constructor (all ten shape classes; composite constructors and property setters inlined, boolean defaults "
    "assumed): CT-1 escape/alias analysis - no array-valued parameter (or an alias through asarray/atleast_2d/a "
    "comprehension over its elements) reaches a store into an object attribute or an in-place operator; CT-2 "
    "must-pass-through - every normal exit has evaluated the class's validation tests, identified by provenance "
    "(len(vertices) tests, np.unique duplicates, isclose coplanarity under planar_tolerance, _is_simple, _is_convex, "
    "ConvexHull vertex count) and each of them controls a raise ValueError; size parameters of curved shapes and "
    "rounding radii reach their attribute only under the guarded setter's positivity test (strict / non-strict); CT-3 "
    "every raise reachable in a constructor is ValueError; CT-4 ConvexPolygon reorders its vertices on the accept path."
)

ARRAY_PARAMS = {"vertices", "faces", "normal", "center"}

# requirement name -> predicate(sig)    sig = (node id, tags, pdeps, dep attrs, function, line)
REQ = {
    "len(vertices) tests (shape, >= 3)": lambda s: any(t[0] == "len-of" and "vertices" in t[1] for t in s[1]),
    "duplicate vertices (np.unique)": lambda s: ("ret", "numpy.unique") in s[1],
    "coplanarity (isclose under planar_tolerance)": lambda s: (("ret", "numpy.isclose") in s[1] or ("ret", "numpy.allclose") in s[1]) and {"_normal", "_vertices"} <= s[3],
    "simple polygon (_is_simple)": lambda s: ("ret", "isect_polygon") in s[1],
    "convex position 2-D (_is_convex)": lambda s: ("ret", "scipy.spatial.ConvexHull") in s[1],
    "convex position 3-D (ConvexHull vertex count)": lambda s: (("ret", "scipy.spatial.ConvexHull") in s[1] or ("ret", "<count:hull>") in s[1]) and ("ret", "<count:input>") in s[1],
}
# recognised-but-insufficient formulations of a requirement: (requirement, predicate, key suffix, explanation)
INSUFFICIENT = [
    ("duplicate vertices (np.unique)", lambda s: ("ret", "<neighbour-diff>") in s[1] and ("ret", "numpy.unique") not in s[1], "adjacent-only",
     "duplicates are looked for among consecutive vertices of the given order only (difference of each row with its successor): "
     "a vertex repeated later in the list, e.g. (A, B, A, C), is accepted"),
    ("simple polygon (_is_simple)", lambda s: ("ret", "<neighbour-diff>") in s[1] and ("ret", "isect_polygon") not in s[1], "local-criterion",
     "the polygon is accepted as simple on a criterion computed from consecutive vertices only (signs of the turns at the corners), without "
     "the intersection sweep: a cycle that turns the same way everywhere but winds around more than once (pentagram, {7/3} star) crosses "
     "itself and is accepted"),
    ("convex position 2-D (_is_convex)", lambda s: ("ret", "<open-chain>") in s[1] and ("ret", "scipy.spatial.ConvexHull") not in s[1], "open-chain",
     "the turn test runs over consecutive pairs x[:-1], x[1:] of the ring of vertices only: the corner at the wrap-around of the ring is "
     "never tested, so a point inside the hull that happens to come first in the ring is accepted as a vertex of a convex polygon"),
    ("convex position 3-D (ConvexHull vertex count)",
     lambda s: ("ret", "<count:hull>") in s[1] and ("ret", "<count:input>") not in s[1],
     "hull-against-itself",
     "the convex-position test compares the hull's vertex list with a count taken from the hull itself, never with the number of input "
     "vertices: interior points listed after the hull vertices are accepted"),
]
# validation tests of the confirmed tree that belong to no requirement of the table (confirmed by reading)
BASELINE_EXTRA = [
    lambda s: "normal" in s[2],                                               # the given normal is orthogonal to the polygon
    lambda s: s[1] <= {("ret", "<count:input>"), ("ret", "numpy.array"), ("ret", "numpy.asarray"), ("ret", "builtins.len")}
    and set(s[2]) == {"vertices"} and not s[3],   # shape tests on the raw argument (.shape[1] in (2, 3))
    lambda s: ("ret", "_calculate_signed_volume") in s[1],                    # positive volume of the core
]
POLY = ["len(vertices) tests (shape, >= 3)", "duplicate vertices (np.unique)", "coplanarity (isclose under planar_tolerance)"]
REQUIRED = {
    "Polygon": POLY + ["simple polygon (_is_simple)"],
    "ConvexPolygon": POLY + ["convex position 2-D (_is_convex)"],
    "ConvexSpheropolygon": POLY + ["convex position 2-D (_is_convex)"],
    "ConvexPolyhedron": ["convex position 3-D (ConvexHull vertex count)"],
    "ConvexSpheropolyhedron": ["convex position 3-D (ConvexHull vertex count)"],
    "Polyhedron": [], "Circle": [], "Sphere": [], "Ellipse": [], "Ellipsoid": [],
}
MIN_COUNT = {"len(vertices) tests (shape, >= 3)": 2}
SIZE_PARAMS = {
    "Circle": {"radius": "strict"}, "Sphere": {"radius": "strict"},
    "Ellipse": {"a": "strict", "b": "strict"}, "Ellipsoid": {"a": "strict", "b": "strict", "c": "strict"},
    "ConvexSpheropolygon": {"radius": "nonneg"}, "ConvexSpheropolyhedron": {"radius": "nonneg"},
}
SIZE_ATTR = {"radius": "_radius", "a": "_a", "b": "_b", "c": "_c"}


# requirement -> provenance tag of the exhaustive test inside the predicate function that the constructor calls
STRONG_IN_CALLEE = {
    "simple polygon (_is_simple)": ("ret", "isect_polygon"),
    "convex position 2-D (_is_convex)": ("ret", "scipy.spatial.ConvexHull"),
}


def verdict_names(index):
    out = set()
    for mname in ("coxeter.shapes.polygon", "coxeter.shapes.convex_polygon"):
        m = index.modules.get(mname)
        if m is not None:
            out |= set(m.functions)
    return out


def _calls_strong(index, tags, strong):
    """the test's value was returned by a module-level predicate that contains the exhaustive test"""
    for t_ in tags:
        if isinstance(t_, tuple) and t_[0] == "ret":
            for mname in ("coxeter.shapes.polygon", "coxeter.shapes.convex_polygon"):
                m = index.modules.get(mname)
                f = m.functions.get(t_[1]) if m is not None else None
                if f is not None and strong[1].split(".")[-1] in ast.unparse(f.node):
                    return True
    return False


def _callee_accepts(index, tp, strong):
    """'all-strong' when every path of the predicate that can return a true value has evaluated the exhaustive test;
    ('weak', suffix, text) when a path accepts on a recognised-but-insufficient criterion; None when undecided."""
    names = {t_[1] for (exc, sigs, ev) in tp.raises for s_ in sigs for t_ in s_[1] if isinstance(t_, tuple) and t_[0] == "ret"} & verdict_names(index)
    fns = []
    for mname in ("coxeter.shapes.polygon", "coxeter.shapes.convex_polygon"):
        m = index.modules.get(mname)
        if m is not None:
            fns += [m.functions[n_] for n_ in names if n_ in m.functions]
    decided = None
    for f in fns:
        # only predicates that contain the exhaustive test at all
        tq = TestsPassed()
        r = Interp(index, [tq]).run_entry(f, None)
        rets = r["returns"]
        if not any(strong in v.tags for (v, s_, n_) in rets):
            continue
        decided = "all-strong"
        for (v, s_, n_) in rets:
            if strong in v.tags:
                continue
            if v.has_const() and not v.const:
                continue                      # early reject
            path_tests = s_.comp[tq.name]
            for (rq_, p_, sfx, why) in INSUFFICIENT:
                if any(p_(sig) for sig in path_tests):
                    return ("weak", sfx, why)
            return None                        # an accepting path without the exhaustive test, criterion not recognised
    return decided


def run(index, tier="quick", seed=0) -> Result:
    res = Result("C15", EXPLANATION)
    n = 0
    nguards = 0
    for cls in index.shape_classes():
        init = cls.lookup("__init__")
        if not isinstance(init, FuncInfo):
            raise AnalysisError(f"anchor vanished: {cls.name}.__init__")
        if cls.name not in REQUIRED:
            res.notes.append(f"new shape class {cls.name}: only CT-1/CT-3 applied")
        n += 1
        tp = TestsPassed()
        it = Interp(index, [tp], config={"assume_defaults": True, "fold_branches": True, "nonempty_loops": True})
        r = it.run_entry(init, cls)
        res.evaluations += it.stats["stmts"]
        res.unmodelled |= it.unmodelled
        label = f"{cls.name}.__init__"
        # ---------------------------------------------------------------- CT-1
        params = [p for p in init.params[1:]]
        bad_params = set()
        for e in r["events"]:
            if e.type == "write" and e.rhs is not None:
                for loc in e.rhs.all_aliases():
                    if loc[0] == "param" and loc[1] in params:
                        k = f"{label}:{loc[1]}:stored"
                        bad_params.add(loc[1])
                        res.bad("CT-1", k, e.where(), f"{label} stores (an alias of) the caller's `{loc[1]}` in "
                                f"{e.loc[0]}.{e.loc[1]} via `{e.src()[:60]}` (path {' -> '.join(e.path)})")
            elif e.type == "param-inplace" and e.loc[1] in params:
                k = f"{label}:{e.loc[1]}:mutated"
                bad_params.add(e.loc[1])
                res.bad("CT-1", k, e.where(), f"{label} modifies the caller's `{e.loc[1]}` in place via `{e.src()[:60]}` "
                        f"(path {' -> '.join(e.path)})")
        for p in params:
            if p in ARRAY_PARAMS and p not in bad_params:
                res.ok("CT-1", f"{label}:{p}", sample={"ctor": label, "param": p, "verdict": "copied before any store"})
        # ---------------------------------------------------------------- CT-8 coordinate state is stored as floating point
        # an array built from the caller's data without a dtype keeps an integer dtype for integer input ([[0, 0], [1, 0], [0, 1]],
        # center=(1, 2, 3)); every later in-place scaling / translation of that state truncates or raises
        for e in r["events"]:
            if e.type == "write" and e.mode == "rebind" and e.rhs is not None and e.loc[1] in ("_vertices", "_normal") \
                    and "maybe-int" in e.rhs.tags:
                res.bad("CT-8", f"{label}:{e.loc[1]}:caller-dtype", e.where(), f"{label} stores {e.loc[1]} with the caller's dtype (`{e.src()[:60]}`): integer "
                        "coordinates - documented input - stay an integer array, and the in-place arithmetic of the setters (`*= scale`, `+= shift`) "
                        "then truncates or raises instead of moving the shape")
        if any(e.type == "write" and e.loc[1] == "_vertices" for e in r["events"]):
            if not any(f_.rule == "CT-8" and f_.key.startswith(label + ":") for f_ in res.findings):
                res.ok("CT-8", label, nontrivial=False)
        # ---------------------------------------------------------------- CT-7 the stored normal is a unit vector
        for e in r["events"]:
            if e.type == "write" and e.loc[1] == "_normal" and e.rhs is not None and e.mode == "rebind":
                k7 = f"{label}:_normal"
                raw = any(loc[0] == "param" for loc in e.rhs.all_aliases()) or "raw-param" in e.rhs.tags or \
                    (any(isinstance(t_, tuple) and t_[0] == "val-of" for t_ in e.rhs.tags) and e.rhs.pdeps
                     and all(d_[0] == "param" for d_ in e.rhs.deps))
                if "unit" in e.rhs.tags:
                    res.ok("CT-7", k7, nontrivial=True, sample={"stored_normal": "given or computed" if e.rhs.pdeps else "computed"})
                elif raw:
                    res.bad("CT-7", k7 + ":unnormalised", e.where(), f"{label} stores the caller's normal as given (`{e.src()[:50]}`): every formula that "
                            "treats `_normal` as a unit vector (projected area, plane offsets, alignment rotation) is off by |n| for a normal of another length")
                else:
                    raise AnalysisError(f"CT-7: {label} stores a normal that is not recognised as x / |x| (`{e.src()[:50]}`)")
        # ---------------------------------------------------------------- CT-6 validation tolerances are relative
        from ..dimscan import classify_cmp
        seen6 = set()
        for e in r["events"]:
            if e.type == "cmp" and e.form in ("isclose", "allclose"):
                c6 = classify_cmp(e)
                if c6 and c6[0] == "in-band" and e.src() not in seen6:
                    seen6.add(e.src())
                    res.bad("CT-6", f"{label}:{e.form}:k={c6[1]}:c={c6[2]:g}", e.where(), f"{label}: the validation test `{e.src()[:70]}` applies the absolute "
                            f"tolerance {c6[2]:g} to a quantity of length degree {c6[1]}: at the small end of the supported scales invalid input "
                            "(e.g. vertices 10 % out of plane) is accepted")
        # ---------------------------------------------------------------- CT-5 no parameter is silently ignored
        import ast as _ast
        read = {x.id for x in _ast.walk(init.node) if isinstance(x, _ast.Name) and isinstance(x.ctx, _ast.Load)}
        for p_ in params:
            if p_ not in read:
                res.bad("CT-5", f"{label}:{p_}:ignored", f"{init.file}:{init.lineno}", f"{label} accepts `{p_}` but never reads it: the caller's "
                        f"{p_} is silently replaced by a default (no validation, no effect on the shape)")
            else:
                res.ok("CT-5", f"{label}:{p_}", nontrivial=False)
        # CT-4 reorder on accept path
        if cls.name in ("ConvexPolygon", "ConvexSpheropolygon"):
            # decided on what happens to the vertex array, not on the name of a helper: the constructor sorts by the polar
            # angle about the normal (an argsort / lexsort with an arctan2-derived key) and then stores a row selection of
            # `_vertices` back into `_vertices`
            def _self_rows(e_):
                return e_.type == "write" and e_.loc[1] == "_vertices" and e_.f.get("rhs") is not None and any(
                    isinstance(t_, tuple) and t_ and t_[0] in ("copy-of", "reorder-of", "reverse-of") and any(
                        isinstance(l_, tuple) and l_[-1] == "_vertices" for l_ in (t_[1] if isinstance(t_[1], tuple) else ())) for t_ in e_.rhs.tags)
            stores = [e for e in r["events"] if _self_rows(e)]

            def _angle_key(e_):
                t_ = e_.f.get("target")
                vs_ = [t_] + list(t_.items or ()) if t_ is not None else []
                return any(v_ is not None and "polar-angle" in v_.tags for v_ in vs_)
            sorts = [e for e in r["events"] if e.type == "reorder" and e.f.get("fn") in ("lexsort", "argsort", "sort") and _angle_key(e)]
            unordered = [n_ for (v_, s_, n_) in r["returns"] if not any(sg_[0] == "<vertices-reordered>" for sg_ in s_.comp.get(tp.name, frozenset()))]
            if stores and sorts and any(s_.time < w_.time for s_ in sorts for w_ in stores) and unordered:
                res.bad("CT-4", label + ":path-without-reorder", f"{init.file}:{getattr(unordered[0], 'lineno', init.lineno)}", f"{label} orders the vertices "
                        "counter-clockwise on some accepting paths only: another path returns with the vertices in the order given (with an explicit normal "
                        "opposite to the input winding they stay clockwise about it)")
            elif stores and sorts and any(s_.time < w_.time for s_ in sorts for w_ in stores):
                res.ok("CT-4", label)
            elif not stores:
                res.bad("CT-4", label, f"{init.file}:{init.lineno}", f"{label} never orders the vertices counter-clockwise: no accepted path stores a "
                        "reordering of the vertex array back into `_vertices`")
            else:
                raise AnalysisError(f"CT-4: {label} reorders its vertices in a way the analysis does not recognise (no sort by a polar angle)")
        # ---------------------------------------------------------------- CT-2 validation must-pass-through
        exits = [s.comp[tp.name] for (_v, s, _n) in r["returns"]]
        if not exits:
            raise AnalysisError(f"{label} has no normal exit")
        for req in REQUIRED.get(cls.name, []):
            pred = REQ[req]
            need = MIN_COUNT.get(req, 1)
            ok_all = True
            passed_some = False
            for ex in exits:
                nodes = {s[0] for s in ex if pred(s)}
                if len(nodes) < need:
                    ok_all = False
                else:
                    passed_some = True
            controls = [(exc, ev) for (exc, sigs, ev) in tp.raises if any(pred(s) for s in sigs)]
            k = f"{label}:{req}"
            if not ok_all and req in STRONG_IN_CALLEE:
                # the test is a call of a module-level predicate: judge the predicate's own accepting paths.  An early *reject*
                # (return False before the exhaustive test) is harmless; an early *accept* bypasses the test.
                verdict = _callee_accepts(index, tp, STRONG_IN_CALLEE[req])
                called = verdict_names(index)
                via_call = all(any(any(isinstance(t_, tuple) and t_[0] == "ret" and t_[1] in called for t_ in s_[1]) and
                                   (STRONG_IN_CALLEE[req] in s_[1] or _calls_strong(index, s_[1], STRONG_IN_CALLEE[req])) for s_ in ex) for ex in exits)
                if verdict == "all-strong" and via_call:
                    ok_all = True
                    controls = controls or [(exc, ev) for (exc, sigs, ev) in tp.raises if exc == "ValueError"
                                            and any(any(isinstance(t_, tuple) and t_[0] == "ret" and t_[1] in verdict_names(index) for t_ in s_[1]) for s_ in sigs)]
                elif isinstance(verdict, tuple) and verdict[0] == "weak":
                    res.bad("CT-2", k + ":" + verdict[1], f"{init.file}:{init.lineno}", f"{label}: {verdict[2]}")
                    continue
            if not ok_all:
                # recognise-then-judge: is there a validation test the table does not know (it may be an equivalent formulation)?
                known_preds = [REQ[q_] for q_ in REQUIRED.get(cls.name, [])]
                unknown_tests = set()
                for (exc_, sigs_, ev_) in tp.raises:
                    if exc_ != "ValueError":
                        continue
                    for s_ in sigs_:
                        if not any(p_(s_) for p_ in known_preds) and ("vertices" in s_[2] or "_vertices" in s_[3]) \
                                and not any(b_(s_) for b_ in BASELINE_EXTRA):
                            unknown_tests.add(s_[0])
                weak = [(sfx, why) for (rq_, p_, sfx, why) in INSUFFICIENT if rq_ == req
                        and any(p_(s_) for (exc_, sigs_, ev_) in tp.raises if exc_ == "ValueError" for s_ in sigs_)]
                if weak:
                    res.bad("CT-2", k + ":" + weak[0][0], f"{init.file}:{init.lineno}", f"{label}: {weak[0][1]}")
                    continue
                if passed_some and not unknown_tests:
                    # some accepting paths run the test and others bypass it under a condition the table knows (a vertex count,
                    # a flag): whether that condition makes the test unnecessary (a triangle is always simple) is not decided
                    raise AnalysisError(f"CT-2: {label} bypasses the test `{req}` on some accepting paths under a condition the analysis cannot judge")
                if unknown_tests:
                    raise AnalysisError(f"CT-2: {label} does not contain the recognised form of the test `{req}` but validates its vertices with "
                                        f"{len(unknown_tests)} test(s) the analysis does not know")
                res.bad("CT-2", k, f"{init.file}:{init.lineno}", f"{label} can return normally without passing the test: {req}")
            elif not any(exc == "ValueError" for exc, _ in controls):
                res.bad("CT-2", k + ":noraise", f"{init.file}:{init.lineno}", f"{label}: the test `{req}` does not control any raise ValueError")
            else:
                res.ok("CT-2", k, sample={"ctor": label, "test": req})
        # ---------------------------------------------------------------- CT-3 exception types
        excs = {}
        for (exc, sigs, ev) in tp.raises:
            if ev.func is not None and ev.func.module.name.startswith("coxeter.shapes"):
                excs.setdefault(exc, ev)
        for exc, ev in excs.items():
            if exc not in ("ValueError",):
                res.bad("CT-3", f"{label}:{exc}", ev.where(), f"{label} can raise {exc} (not ValueError) from `{ev.src()[:60]}`")
        if excs and set(excs) <= {"ValueError"}:
            res.ok("CT-3", label, sample={"ctor": label, "raises": sorted(excs)})
        # ---------------------------------------------------------------- size parameters through guarded setters
        for p, mode in SIZE_PARAMS.get(cls.name, {}).items():
            nguards += 1
            g = Guard(p)
            it2 = Interp(index, [g], config={"assume_defaults": True, "fold_branches": True, "nonempty_loops": True})
            r2 = it2.run_entry(init, cls)
            attr = SIZE_ATTR[p]
            ws = [e for e in r2["events"] if e.type == "write" and e.loc[1] == attr and e.rhs is not None and p in e.rhs.pdeps]
            k = f"{label}:{p}"
            if not ws:
                res.bad("CT-2", k + ":nostore", f"{init.file}:{init.lineno}", f"{label} never stores `{p}`")
                continue
            ung = [e for e in g.unguarded_writes if e.loc[1] == attr and e.rhs is not None and p in e.rhs.pdeps]
            strict = [s for s in g.guard_sites if s[1]]
            nonneg = [s for s in g.guard_sites if not s[1]]
            if ung:
                res.bad("CT-2", k, ung[0].where(), f"{label} stores `{p}` into {attr} without the positivity test of the guarded setter")
            elif mode == "strict" and not strict:
                res.bad("CT-2", k + ":nonstrict", ws[0].where(), f"{label} accepts {p} == 0: only a non-strict test guards {attr}")
            elif mode == "nonneg" and strict and not nonneg:
                res.bad("CT-2", k + ":toostrict", ws[0].where(), f"{label} rejects rounding radius 0: only a strict test guards {attr}")
            elif [e for e in g.nan_writes if e.loc[1] == attr]:
                e_ = [e for e in g.nan_writes if e.loc[1] == attr][0]
                res.bad("CT-2", k + ":nan", e_.where(), f"{label} stores a NaN `{p}` into {attr}: the positivity test is written as a refusal "
                        "(`if value <= 0: raise`), which NaN passes because every comparison with NaN is false")
            elif g.wrong_exc:
                res.bad("CT-3", k, g.wrong_exc[0][0].where(), f"{label} refuses a bad `{p}` with {g.wrong_exc[0][1]}, not ValueError")
            else:
                res.ok("CT-2", k, sample={"ctor": label, "param": p, "guard": ">" if mode == "strict" else ">="})
    if n < 10:
        raise AnalysisError(f"only {n} constructors enumerated (10 confirmed)")
    if nguards < 9:
        raise AnalysisError(f"only {nguards} size-parameter guards enumerated (9 confirmed)")
    return res
