"""C14 - distance_to_surface is the radial distance from the centre to the boundary (structural part)."""

from __future__ import annotations

import ast

from ..degrees import check_degree
from ..dimscan import scan
from ..index import AnalysisError, FuncInfo
from ..interp import Interp
from ..report import Result

EXPLANATION = (
    "Per distance_to_surface implementation (Circle, Ellipse, ConvexPolygon, ConvexSpheropolygon; calls inlined): "
    "ANG-1 the caller's `angles` (the array itself or a view of it) never reaches an ordering comparison: it must pass "
    "np.mod(., 2 pi) first ('any real numbers, not only [0, 2 pi)'); periodic uses (sin/cos/tan) need no "
    "normalisation; FRAME-1 an implementation may not delegate to the distance_to_surface of a freshly built helper "
    "shape, which measures from its *own* centroid, not from this shape's centre; DEG the result is a length, every "
    "formula on the way is homogeneous and trig arguments are dimensionless. Correctness of the angular binning and "
    "of the line intersections is numerical and not decided."
)
CLASSES = ("Circle", "Ellipse", "ConvexPolygon", "ConvexSpheropolygon")


def run(index, tier="quick", seed=0) -> Result:
    res = Result("C14", EXPLANATION)
    sc = scan(index)
    n = 0
    for cname in CLASSES:
        cls = index.cls(cname)
        fn = cls.lookup("distance_to_surface")
        if not isinstance(fn, FuncInfo):
            raise AnalysisError(f"anchor vanished: {cname}.distance_to_surface")
        it = Interp(index)
        r = it.run_entry(fn, cls)
        res.evaluations += it.stats["stmts"]
        if not r["returns"]:
            raise AnalysisError(f"{cname}.distance_to_surface has no normal return")
        n += 1
        label = f"{cname}.distance_to_surface"
        # ---------------- ANG-1
        bad = False
        ncmp = 0
        for e in r["events"]:
            if e.type != "cmp" or e.form != "compare" or e.op in ("Eq", "NotEq"):
                continue
            for side in (e.left, e.right):
                if "mod2pi" in side.tags:
                    ncmp += 1
                elif ("param", "angles") in side.al:
                    bad = True
                    res.bad("ANG-1", label, e.where(), f"{label} compares the caller's raw angles in `{e.src()[:60]}` "
                            f"(path {' -> '.join(e.path)}): angles outside [0, 2 pi) match no angular range")
        if not bad:
            res.ok("ANG-1", label, nontrivial=ncmp > 0, sample={"impl": label, "normalised_comparisons": ncmp})
        # ---------------- RING-1  the cosine of a corner angle, arccos(u . v / (|a| |b|)) row by row over the vertex ring: the lengths
        # belong to the vertices the dot product is built from.  Ring stencils (offsets k such that row i depends on vertex i + k,
        # shifted by np.roll, united by row-wise arithmetic): stencil(denominator) must lie inside stencil(numerator).
        for e in r["events"]:
            if e.type != "arc" or e.f.get("fn") not in ("arccos", "arcsin") or e.f.get("arg") is None:
                continue
            qr = [t_ for t_ in e.arg.tags if isinstance(t_, tuple) and t_ and t_[0] == "quot-rings"]
            if not qr:
                continue
            num, den = qr[0][1], qr[0][2]
            k_ = f"{label}:corner-angle"
            if den <= num:
                res.ok("RING-1", k_, sample={"arccos": e.src()[:70], "numerator_offsets": sorted(num), "denominator_offsets": sorted(den)})
            else:
                res.bad("RING-1", k_ + ":foreign-lengths", e.where(), f"{label}: `{e.src()[:70]}` normalises a product of the edge vectors at the ring offsets "
                        f"{sorted(num)} with lengths taken at the offsets {sorted(den)}: row i divides by the length of an edge that does not meet vertex i "
                        "(a roll in the wrong direction); exact only when consecutive edge lengths repeat with period 2")
        # ---------------- FRAME-1
        deleg = [e for e in r["events"] if e.type == "enter" and not e.entry and e.callee.name == "distance_to_surface"
                 and e.selfobj is not None and e.selfobj.oid.startswith("new#")]
        cons = {ev.obj.oid: ev for ev in r["events"] if ev.type == "construct"}
        for e in deleg:
            ce = cons.get(e.selfobj.oid)
            built_from = sorted({a for v in (list(ce.args) + list(ce.kwargs.values()) if ce else []) for (o, a) in v.deps if o.startswith("self")})
            res.bad("FRAME-1", f"{label}:{e.selfobj.cls.name}:from={','.join(built_from)}", e.where(), f"{label} delegates to {e.selfobj.cls.name}(...).distance_to_surface of a helper shape built "
                    f"on the fly: that shape measures from its own centroid, which is not the centre of this shape for irregular cores")
        if not deleg:
            res.ok("FRAME-1", label)
        # ---------------- MEAN-1: the distance is measured from the centre (centroid), never from the average of the vertices
        vm = sorted({d for (v_, _s, _n) in r["returns"] for d in v_.deps if d[0] == "vertex-mean"})

        def _rowmean(tag):
            # the average over the vertex axis of a coordinate array (np.mean(v, axis=0)): a point.  The mean of one column
            # of the aligned vertices (the constant height of the polygon's plane in Polygon.centroid) is not a reference point.
            for e in r["events"]:
                if e.type == "reduce" and f"{e.fn}@{getattr(e.node, 'lineno', 0)}" == tag:
                    ax = e.f.get("axis")
                    return ax is not None and ax.has_const() and ax.const == 0
            return False
        vm = [d for d in vm if _rowmean(d[1])]
        if vm:
            site = [e for e in r["events"] if e.type == "reduce" and f"{e.fn}@{getattr(e.node, 'lineno', 0)}" == vm[0][1]]
            res.bad("MEAN-1", label + ":vertex-mean", site[0].where() if site else f"{fn.file}:{fn.lineno}",
                    f"{label} depends on an unweighted average of vertex coordinates (`{site[0].src()[:60] if site else vm[0][1]}`): the vertex mean is "
                    "the centroid only for triangles, regular and centrally symmetric polygons, so the distances are measured from the wrong point")
        else:
            res.ok("MEAN-1", label, nontrivial=False)
        # ---------------- DTYPE-1: integer angles (np.arange(4), [0, 1, 2]) are documented input; the result buffer is floating
        ints = [e for e in r["events"] if e.type == "int-inplace"]
        if ints:
            e = ints[0]
            res.bad("DTYPE-1", f"{label}:{e.op}:buffer", e.where(), f"{label}: `{e.src()[:60]}` writes floating-point distances into a buffer whose dtype is "
                    "the caller's (allocated like the raw angles): integer angles give silently truncated distances")
        else:
            res.ok("DTYPE-1", label, nontrivial=False)
        # ---------------- DEG
        st, txt = check_degree(r["result"], 1)
        if st == "ok":
            res.ok("DEG", label)
        elif st == "bad":
            res.bad("DEG", label, f"{fn.file}:{fn.lineno}", f"{label} returns a quantity of length degree {txt}, expected 1")
        else:
            res.not_in_fragment.append(f"DEG {label}: {txt}")
    for k, (where, what, func) in sc.conflicts.items():
        if "distance_to_surface" in func or "_get_outward_unit_normal" in func:
            res.bad("DEG", k, where, what)
    if n < 4:
        raise AnalysisError("fewer than 4 implementations")
    from ..parallel import report as _copy1
    from ..frame3 import check as _frame3
    for cn_ in ("ConvexPolygon", "ConvexSpheropolygon"):
        _frame3(res, index, cn_, ("distance_to_surface",))
    _copy1(res, index, lambda f: f['top'] in ('distance_to_surface', '_get_outward_unit_normal'))
    from ..dimscan import report_translation
    report_translation(res, sc, lambda func, path: any(p_.endswith(".distance_to_surface") for p_ in path[:1]) or func.endswith(".distance_to_surface"),
                       "distance_to_surface implementations")
    # ELL-1: the distance from the centre of an ellipse to its boundary is not symmetric under a <-> b (along x it is a,
    # along y it is b): the result must depend on each semi-axis individually, not only through order-free combinations
    # (sorted / min / max of the two, the eccentricity)
    ecls = index.cls("Ellipse")
    efn = ecls.lookup("distance_to_surface")
    ite = Interp(index, config={"axis_symmetry": True})
    re_ = ite.run_entry(efn, ecls)
    rv = re_["result"]
    if rv is None:
        raise AnalysisError("Ellipse.distance_to_surface has no normal return")
    ind = {("self", "_a"), ("self", "_b")} & rv.deps
    if len(ind) == 2:
        res.ok("ELL-1", "Ellipse.distance_to_surface", sample={"depends_individually_on": ["a", "b"]})
    elif ("sym", "a|b") in rv.deps:
        res.bad("ELL-1", "Ellipse.distance_to_surface:symmetric", f"{efn.file}:{efn.lineno}", "Ellipse.distance_to_surface uses the semi-axes only through "
                "order-free combinations (sorted / min / max / eccentricity): the result is the same for Ellipse(a, b) and Ellipse(b, a), i.e. the "
                "ellipse is implicitly rotated by 90 degrees whenever b > a")
    else:
        raise AnalysisError("ELL-1: dependence of Ellipse.distance_to_surface on the semi-axes not recognised")
    _ell2(res, efn)
    _bin1(res, index)
    from ..labelrule import report as _label
    _label(res, index, lambda cls_, fn_: fn_ == "distance_to_surface" or fn_.startswith("_get_outward"))
    return res


def _ell2(res, efn):
    """ELL-2: the closed form returned by Ellipse.distance_to_surface is, as a symbolic expression in a, b > 0 and the angle,
    identical to the polar form of the ellipse a b / sqrt((b cos t)^2 + (a sin t)^2) (sympy simplification of the source
    expression; locals bound once are looked through).  An expression outside the translated fragment gives no verdict."""
    try:
        import sympy as sp
    except Exception:
        res.not_in_fragment.append("ELL-2: sympy not available")
        return
    from ..astutil import single_assignments
    env = single_assignments(efn.node)
    a, b = sp.symbols("a b", positive=True)
    t = sp.symbols("t", real=True)
    angle_names = {efn.params[1]} if len(efn.params) > 1 else {"angles"}

    class Out(Exception):
        pass

    def tr(n, depth=0):
        if depth > 12:
            raise Out()
        if isinstance(n, ast.Constant) and isinstance(n.value, (int, float)) and not isinstance(n.value, bool):
            return sp.nsimplify(n.value)
        if isinstance(n, ast.Name):
            if n.id in angle_names:
                return t
            if n.id in env:
                return tr(env[n.id], depth + 1)
            raise Out()
        if isinstance(n, ast.Attribute):
            txt = ast.unparse(n)
            if txt in ("self.a", "self._a"):
                return a
            if txt in ("self.b", "self._b"):
                return b
            if txt in ("np.pi", "numpy.pi", "math.pi"):
                return sp.pi
            raise Out()
        if isinstance(n, ast.UnaryOp) and isinstance(n.op, ast.USub):
            return -tr(n.operand, depth + 1)
        if isinstance(n, ast.BinOp):
            l_, r_ = tr(n.left, depth + 1), tr(n.right, depth + 1)
            if isinstance(n.op, ast.Add):
                return l_ + r_
            if isinstance(n.op, ast.Sub):
                return l_ - r_
            if isinstance(n.op, ast.Mult):
                return l_ * r_
            if isinstance(n.op, ast.Div):
                return l_ / r_
            if isinstance(n.op, ast.Pow):
                return l_ ** r_
            raise Out()
        if isinstance(n, ast.Call):
            f = ast.unparse(n.func).split(".")[-1]
            args = [tr(x, depth + 1) for x in n.args]
            if f in ("asarray", "array", "atleast_1d", "float64", "asanyarray") and args:
                return args[0]
            if f in ("mod", "remainder", "fmod") and len(args) == 2 and sp.simplify(args[1] - 2 * sp.pi) == 0:
                return args[0]                     # the closed form has period 2 pi
            one = {"sin": sp.sin, "cos": sp.cos, "tan": sp.tan, "sqrt": sp.sqrt, "square": lambda x: x ** 2, "abs": sp.Abs, "absolute": sp.Abs}
            if f in one and len(args) == 1:
                return one[f](args[0])
            if f == "hypot" and len(args) == 2:
                return sp.sqrt(args[0] ** 2 + args[1] ** 2)
            if f == "power" and len(args) == 2:
                return args[0] ** args[1]
            raise Out()
        raise Out()

    rets = [n.value for n in ast.walk(efn.node) if isinstance(n, ast.Return) and n.value is not None]
    if len(rets) != 1:
        res.not_in_fragment.append("ELL-2: not a single returned expression")
        return
    if sum(1 for _ in ast.walk(rets[0])) > 400:
        res.not_in_fragment.append("ELL-2: returned expression too large for symbolic simplification")
        return
    try:
        expr = tr(rets[0])
    except Out:
        res.not_in_fragment.append("ELL-2: returned expression outside the translated fragment")
        return
    except Exception:
        res.not_in_fragment.append("ELL-2: translation failed")
        return
    want = a * b / sp.sqrt((b * sp.cos(t)) ** 2 + (a * sp.sin(t)) ** 2)
    try:
        same = sp.simplify(expr ** 2 - want ** 2) == 0 and sp.simplify(expr.subs(t, 0) - a) == 0
        at0, at90 = sp.simplify(expr.subs(t, 0)), sp.simplify(expr.subs(t, sp.pi / 2))
    except Exception:
        res.not_in_fragment.append("ELL-2: simplification failed")
        return
    k = "Ellipse.distance_to_surface:polar-form"
    if same:
        res.ok("ELL-2", k, sample={"closed_form": str(sp.simplify(expr))[:120], "r(0)": str(at0), "r(pi/2)": str(at90)})
    elif sp.simplify(at0 - a) != 0 or sp.simplify(at90 - b) != 0:
        res.bad("ELL-2", k + ":axes", f"{efn.file}:{rets[0].lineno}", f"Ellipse.distance_to_surface returns {at0} along the x axis (angle 0) and {at90} along the y axis "
                f"(angle pi/2); the ellipse x^2/a^2 + y^2/b^2 = 1 reaches a and b there (the semi-axes are paired with the wrong trigonometric functions)")
    else:
        res.bad("ELL-2", k, f"{efn.file}:{rets[0].lineno}", "Ellipse.distance_to_surface is not the polar form a b / sqrt((b cos t)^2 + (a sin t)^2) of the ellipse "
                f"(it agrees on the axes only): found {str(sp.simplify(expr))[:100]}")




def _fold_float(e, env, depth=0):
    """value of a constant float expression over literals, np.pi / math.pi and single-assignment local constants"""
    import math
    if depth > 6:
        return None
    if isinstance(e, ast.Constant) and isinstance(e.value, (int, float)) and not isinstance(e.value, bool):
        return float(e.value)
    if isinstance(e, ast.Attribute) and ast.unparse(e) in ("np.pi", "math.pi", "numpy.pi"):
        return math.pi
    if isinstance(e, ast.Name) and e.id in env:
        return _fold_float(env[e.id], env, depth + 1)
    if isinstance(e, ast.UnaryOp) and isinstance(e.op, ast.USub):
        v = _fold_float(e.operand, env, depth + 1)
        return None if v is None else -v
    if isinstance(e, ast.BinOp) and isinstance(e.op, (ast.Add, ast.Sub, ast.Mult, ast.Div)):
        a, b = _fold_float(e.left, env, depth + 1), _fold_float(e.right, env, depth + 1)
        if a is None or b is None:
            return None
        if isinstance(e.op, ast.Add):
            return a + b
        if isinstance(e.op, ast.Sub):
            return a - b
        if isinstance(e.op, ast.Mult):
            return a * b
        return a / b if b else None
    return None


def _bin1(res, index):
    """BIN-1: the half-open angular sectors [lo_i, hi_i) of ConvexPolygon.distance_to_surface cover the whole closed range
    of `np.mod(angles, 2 pi)`. np.mod returns exactly 2 pi for tiny negative arguments (the remainder -1e-17 + 2 pi rounds
    to 2 pi), so the constant stored as the upper end of the last sector must exceed 2 pi when it is compared with `<`;
    an angle that falls into no sector keeps the uninitialised entry of np.empty_like. Decided only for the formulation
    "upper ends = np.roll(lower ends, -1) with the last entry overwritten by a constant"; anything else gives no verdict."""
    import math
    from ..astutil import single_assignments
    cls = index.cls("ConvexPolygon")
    fn = cls.methods.get("distance_to_surface")
    if fn is None:
        res.not_in_fragment.append("BIN-1: ConvexPolygon has no own distance_to_surface")
        return
    env = single_assignments(fn.node)
    rolled = {n.targets[0].id for n in ast.walk(fn.node) if isinstance(n, ast.Assign) and len(n.targets) == 1 and isinstance(n.targets[0], ast.Name)
              and isinstance(n.value, ast.Call) and ast.unparse(n.value.func) in ("np.roll", "numpy.roll")}
    stores = [n for n in ast.walk(fn.node) if isinstance(n, ast.Assign) and len(n.targets) == 1 and isinstance(n.targets[0], ast.Subscript)
              and isinstance(n.targets[0].value, ast.Name) and n.targets[0].value.id in rolled and ast.unparse(n.targets[0].slice) == "-1"]
    if len(stores) != 1:
        res.not_in_fragment.append("BIN-1: no single store of the last upper sector end")
        return
    st = stores[0]
    upper = st.targets[0].value.id
    v = _fold_float(st.value, env)
    if v is None:
        res.not_in_fragment.append(f"BIN-1: `{ast.unparse(st.value)[:40]}` is not a constant")
        return
    cmps = [n for n in ast.walk(fn.node) if isinstance(n, ast.Compare) and len(n.ops) == 1 and isinstance(n.ops[0], (ast.Lt, ast.LtE))
            and isinstance(n.comparators[0], ast.Subscript) and isinstance(n.comparators[0].value, ast.Name) and n.comparators[0].value.id == upper]
    if len(cmps) != 1:
        res.not_in_fragment.append("BIN-1: comparison with the upper sector ends not found")
        return
    strict = isinstance(cmps[0].ops[0], ast.Lt)
    two_pi = 2 * math.pi
    # an explicit treatment of the end point elsewhere (`angles == 2 * np.pi`, `angles >= 2 * np.pi` ..): no verdict
    for n in ast.walk(fn.node):
        if isinstance(n, ast.Compare) and len(n.ops) == 1 and isinstance(n.ops[0], (ast.Eq, ast.GtE, ast.Gt)):
            for side in (n.left, n.comparators[0]):
                fv = _fold_float(side, env)
                if fv is not None and abs(fv - two_pi) < 1e-3:
                    res.not_in_fragment.append("BIN-1: the end point 2 pi is handled by a separate comparison")
                    return
    if v > two_pi or (not strict and v == two_pi):
        res.ok("BIN-1", "ConvexPolygon.distance_to_surface:last-sector", sample={"upper_end": ast.unparse(st.value), "value": v, "compared_with": "<" if strict else "<="})
    else:
        res.bad("BIN-1", "ConvexPolygon.distance_to_surface:last-sector", f"{fn.file}:{st.lineno}", f"the last angular sector ends at `{ast.unparse(st.value)}` "
                f"(= {v:.6g}) and angles are tested with `{ast.unparse(cmps[0])[:50]}`: np.mod(angle, 2 pi) returns exactly 2 pi for a tiny negative angle "
                f"(-1e-17 + 2 pi rounds to 2 pi), that angle then lies in no sector and the uninitialised entry of np.empty_like is returned")
