"""C11 - rounded shapes obey Steiner formulas; curvature descriptors match their definitions (structural part)."""

from __future__ import annotations

from fractions import Fraction

from ..algebra import Poly
from ..degrees import check_degree, declared_degree
from ..dimscan import scan
from ..index import AnalysisError
from ..interp import Interp
from ..report import Result

EXPLANATION = (
    "Closed-form normal form (E4) of the Steiner polynomials with r = rounding radius, the core's measures and the "
    "per-edge loop term (edge length, dihedral angle) as atoms (sum over edges implicit): ST-1 derivative chain "
    "dV/dr = S, dS/dr = 8 pi M, dA2/dr = P2, dP2/dr = 2 pi - this pins every constant (4/3 pi, 4 pi, 2 pi, the "
    "(pi - phi)/(2 pi) wedge fraction) relative to the others; ST-2 at r = 0 every polynomial reduces to the core's "
    "getter with coefficient 1; ST-3 the spheropolyhedron's mean curvature is core mean curvature + r with the core's "
    "per-edge term L (pi - phi) / (8 pi); ST-4 tau = 4 pi M^2 / S, asphericity = M S / (3 V), iq = 36 pi V^2 / S^3 "
    "and 4 pi A / P^2 exactly, all dimensionless; the signed spheropolygon area adds the rounding with the sign of "
    "the core area; DEG degrees of all these observables. Dihedral angles themselves (arccos(-n1.n2)) are numerical."
)


def gv(index, cname, member):
    cls = index.cls(cname)
    fn = index.effective_prop(cls, member).getter
    it = Interp(index)
    r = it.run_entry(fn, cls)
    return r["result"], r, fn


R = "self._radius"


def run(index, tier="quick", seed=0) -> Result:
    res = Result("C11", EXPLANATION)
    sc = scan(index)
    # ---------------- degrees
    n = 0
    for (cname, member, kind), v in sorted(sc.results.items()):
        if cname not in ("ConvexSpheropolygon", "ConvexSpheropolyhedron", "ConvexPolyhedron") or kind != "getter":
            continue
        if cname == "ConvexPolyhedron" and member not in ("mean_curvature", "tau", "asphericity", "iq"):
            continue
        want = declared_degree(index.cls(cname), member)
        if want is None:
            continue
        st, txt = check_degree(v, want)
        if st == "noreturn":
            continue
        n += 1
        if st == "ok":
            res.ok("DEG", f"{cname}.{member}")
        elif st == "bad":
            res.bad("DEG", f"{cname}.{member}", cname, f"{cname}.{member} has length degree {txt}, declared {want}")
        else:
            res.not_in_fragment.append(f"DEG {cname}.{member}: {txt}")
    if n < 12:
        raise AnalysisError(f"only {n} degree obligations (>= 12 confirmed)")
    # ---------------- 3-D chain
    V, _, fV = gv(index, "ConvexSpheropolyhedron", "volume")
    S, _, fS = gv(index, "ConvexSpheropolyhedron", "surface_area")
    M, _, fM = gv(index, "ConvexSpheropolyhedron", "mean_curvature")
    pi8 = Poly.const(8) * Poly.atom("pi")
    _ident(res, "ST-1", "d(volume)/dr = surface_area [ConvexSpheropolyhedron]", V.sym, S.sym, fV, deriv=True)
    _ident(res, "ST-1", "d(surface_area)/dr = 8 pi mean_curvature [ConvexSpheropolyhedron]", S.sym,
           (pi8 * M.sym) if M.sym is not None else None, fS, deriv=True)
    # ---------------- 2-D chain
    A_pos = None
    cls2 = index.cls("ConvexSpheropolygon")
    fnA = index.effective_prop(cls2, "signed_area").getter
    it = Interp(index)
    rA = it.run_entry(fnA, cls2)
    rets = [v.sym for (v, s, n_) in rA["returns"]]
    P, _, fP = gv(index, "ConvexSpheropolygon", "perimeter")
    core_A = Poly.atom("getter<self._polygon.signed_area>")
    if len(rets) == 2 and all(x is not None for x in rets):
        # the two branches must be core_area +- rounding with the same rounding polynomial
        d0, d1 = rets[0] - core_A, rets[1] - core_A
        if (d0 + d1).is_zero() and not d0.is_zero():
            neg, pos = (rets[0], rets[1])
            res.ok("ST-4", "ConvexSpheropolygon.signed_area: rounding added with the sign of the core area",
                   sample={"branches": [str(r_) for r_ in rets]})
            # which is the positive one: the one whose r^2 coefficient is +pi
            def r2coeff(x):
                dd = (x - core_A).diff(R).diff(R)
                c = dd.div(Poly.atom("pi")) if not dd.is_zero() else None
                return c.const_value() if c is not None else None
            cand = [x for x in rets if (r2coeff(x) or 0) > 0]
            A_pos = cand[0] if cand else None
        else:
            res.bad("ST-4", "ConvexSpheropolygon.signed_area:sign", f"{fnA.file}:{fnA.lineno}",
                    f"signed_area branches {rets[0]} / {rets[1]} are not core_area +/- the same rounding term")
    else:
        res.not_in_fragment.append(f"ST signed_area: branches {rets}")
    if A_pos is not None:
        _ident(res, "ST-1", "d(area)/dr = perimeter [ConvexSpheropolygon]", A_pos, P.sym, fnA, deriv=True)
    _ident(res, "ST-1", "d(perimeter)/dr = 2 pi [ConvexSpheropolygon]", P.sym, Poly.const(2) * Poly.atom("pi"), fP, deriv=True)
    # ---------------- ST-2  r = 0
    zero = {R: Poly.const(0)}
    for name, v, core, fn in (
        ("ConvexSpheropolyhedron.volume", V.sym, Poly.atom("self._polyhedron._volume"), fV),
        ("ConvexSpheropolyhedron.surface_area", S.sym, Poly.atom("self._polyhedron._area"), fS),
        ("ConvexSpheropolygon.perimeter", P.sym, None, fP),
        ("ConvexSpheropolygon.signed_area", A_pos, core_A, fnA),
    ):
        if v is None:
            res.not_in_fragment.append(f"ST-2 {name}")
            continue
        at0 = v.subs(zero)
        if core is None:
            # perimeter: the core perimeter atom with coefficient one
            ok = at0 is not None and at0.is_monomial() and list(at0.terms.values())[0] == 1 and len(at0.atoms()) == 1
        else:
            ok = at0 == core
        if ok:
            res.ok("ST-2", name, sample={"at_r_0": str(at0)})
        else:
            res.bad("ST-2", name, f"{fn.file}:{fn.lineno}", f"{name} at r = 0 is {at0}, not the core's measure with coefficient 1")
    # ---------------- ST-3
    Mc, _, fMc = gv(index, "ConvexPolyhedron", "mean_curvature")
    if M.sym is None or Mc.sym is None:
        res.not_in_fragment.append("ST-3 mean curvature")
    else:
        ren = {}
        core = Mc.sym
        # rename atoms of the stand-alone core (self.*) to the composite's (self._polyhedron.*)
        mapping = {a: Poly.atom(a.replace("self.", "self._polyhedron.")) for a in core.atoms() if "self." in a}
        core_in = core.subs(mapping)
        want = core_in + Poly.atom(R) if core_in is not None else None
        L = [a for a in Mc.sym.atoms() if a.startswith("norm<")]
        phi = [a for a in Mc.sym.atoms() if a.startswith("call<") and "get_dihedral" in a]
        form_ok = False
        if len(L) == 1 and len(phi) == 1:
            expect = Poly.atom(L[0]) * (Poly.atom("pi") - Poly.atom(phi[0])) * Poly.const(Fraction(1, 8)) * Poly.atom("pi").pow(-1)
            form_ok = Mc.sym == expect
        if want is not None and M.sym == want and form_ok:
            res.ok("ST-3", "mean_curvature = core + r with per-edge term L (pi - phi) / (8 pi)", sample={"core": str(Mc.sym)})
        elif not form_ok:
            res.bad("ST-3", "ConvexPolyhedron.mean_curvature:form", f"{fMc.file}:{fMc.lineno}",
                    f"ConvexPolyhedron.mean_curvature = {Mc.sym} is not sum L (pi - phi) / (8 pi)")
        else:
            res.bad("ST-3", "ConvexSpheropolyhedron.mean_curvature", f"{fM.file}:{fM.lineno}",
                    f"ConvexSpheropolyhedron.mean_curvature = {M.sym}, expected core + r = {want}")
    # ---------------- ST-4 descriptors
    pi = Poly.atom("pi")
    Sc, _, _ = gv(index, "ConvexPolyhedron", "surface_area")
    Vc, _, _ = gv(index, "ConvexPolyhedron", "volume")
    tau, _, ft = gv(index, "ConvexPolyhedron", "tau")
    asp, _, fa = gv(index, "ConvexPolyhedron", "asphericity")
    iq3, _, fi = gv(index, "ConvexPolyhedron", "iq")
    if Mc.sym is not None:
        _ident(res, "ST-4", "tau = 4 pi M^2 / S", tau.sym, (Poly.const(4) * pi * Mc.sym * Mc.sym).div(Sc.sym), ft)
        _ident(res, "ST-4", "asphericity = M S / (3 V)", asp.sym, (Mc.sym * Sc.sym).div(Poly.const(3) * Vc.sym), fa)
    _ident(res, "ST-4", "iq = 36 pi V^2 / S^3 [Shape3D]", iq3.sym, (Poly.const(36) * pi * Vc.sym * Vc.sym).div(Sc.sym * Sc.sym * Sc.sym), fi)
    # 2-D iq on a class with opaque area/perimeter
    iq2, r2, f2 = gv(index, "ConvexSpheropolygon", "iq")
    A2, _, _ = gv(index, "ConvexSpheropolygon", "area")
    a_atom = A2.sym if A2.sym is not None else Poly.atom("getter<self.area>")
    if iq2.sym is not None and P.sym is not None:
        want = (Poly.const(4) * pi * Poly.atom("getter<self.area>")).div(P.sym * P.sym)
        want2 = (Poly.const(4) * pi * a_atom).div(P.sym * P.sym)
        if iq2.sym in (want, want2):
            res.ok("ST-4", "iq = 4 pi A / P^2 [Shape2D]")
        else:
            res.bad("ST-4", "Shape2D.iq", f"{f2.file}:{f2.lineno}", f"Shape2D.iq = {iq2.sym}, expected 4 pi A / P^2")
    else:
        res.not_in_fragment.append("ST-4 Shape2D.iq")
    from ..parallel import report as _copy1
    _copy1(res, index, lambda f: f['cls'] in ('ConvexSpheropolygon', 'ConvexSpheropolyhedron') and f['top'] in ('volume', 'surface_area', 'mean_curvature', 'signed_area', 'area', 'perimeter') or (f['cls'] == 'ConvexPolyhedron' and f['top'] in ('mean_curvature', 'tau', 'asphericity')))
    from ..frame2 import check as _frame2
    _frame2(res, index, "ConvexSpheropolygon", ("signed_area", "area", "perimeter"))
    # ST-5: per-edge sequences that are multiplied / added element by element follow the same enumeration of the edges
    # (the cached `edges` / `edge_lengths` are sorted by vertex index, `_get_face_intersections` yields face pairs)
    for cname_, member_ in (("ConvexPolyhedron", "mean_curvature"), ("ConvexSpheropolyhedron", "mean_curvature"),
                            ("ConvexSpheropolyhedron", "volume"), ("ConvexSpheropolyhedron", "surface_area")):
        v_, r_, f_ = gv(index, cname_, member_)
        mism = [e for e in r_["events"] if e.type == "order-mismatch"]
        k_ = f"{cname_}.{member_}"
        if mism:
            e = mism[0]
            res.bad("ST-5", k_ + ":pairing", e.where(), f"{k_}: `{e.src()[:70]}` combines, element by element, a sequence in the order of "
                    f"`{e.orders[0]}` with one in the order of `{e.orders[1]}`: each edge length meets the dihedral angle of another edge")
        else:
            res.ok("ST-5", k_, nontrivial=False)
    # ST-6: range typing of the per-edge wedge angle.  The exterior dihedral angle of a convex polyhedron takes every value
    # of (0, pi) (regular tetrahedron: 109.5 deg, cube: 90 deg, icosahedron: 41.8 deg), so the angle factor w of the per-edge
    # term K * w must be an expression whose value range covers (0, pi): pi - arccos(.), arccos(.), arctan2(|.|, .) do,
    # arcsin(.) / arctan(.) (range within [-pi/2, pi/2]) cannot - they are right for obtuse dihedral angles only.
    for cname_, member_ in (("ConvexPolyhedron", "mean_curvature"), ("ConvexSpheropolyhedron", "volume"),
                            ("ConvexSpheropolyhedron", "surface_area")):
        v_, r_, f_ = gv(index, cname_, member_)
        k_ = f"{cname_}.{member_}"
        w = _wedge(v_.sym, r_["events"])
        if w is None:
            res.not_in_fragment.append(f"ST-6 {k_}: no per-edge angle factor recognised in {v_.sym}")
            continue
        for atom, form, (lo, hi) in w:
            if lo <= 0 and hi >= 2:
                res.ok("ST-6", k_, sample={"angle": atom, "wedge": form, "range_in_half_pi": [lo, hi]})
            else:
                res.bad("ST-6", k_ + ":wedge-range", f"{f_.file}:{f_.lineno}",
                        f"{k_}: the per-edge wedge angle `{form}` with {atom.split('<')[0]} ranging over [{lo}, {hi}] * pi/2 only takes "
                        f"values in [{_fmt(form, lo, hi)[0]}, {_fmt(form, lo, hi)[1]}] * pi/2, but exterior dihedral angles cover (0, pi): wrong for "
                        f"every core with an acute (or, for the other half, obtuse) dihedral angle, e.g. the regular tetrahedron")
    return res


def _fmt(form, lo, hi):
    return (2 - hi, 2 - lo) if form.startswith("pi -") else (lo, hi)


ANGLE_PREFIX = ("arccos<", "arcsin<", "arctan<", "arctan2<")


def _angle_ranges(events):
    """atom name -> (lo, hi) in units of pi/2, from the inverse-trigonometric calls met while evaluating the member and
    from the results of helper methods that return such an angle (get_dihedral)."""
    out = {}
    for e in events:
        if e.type == "arc" and e.f.get("result_sym") is not None:
            a = next(iter(e.result_sym.atoms()))
            out[a] = e.range
        elif e.type == "leave" and e.f.get("value") is not None and e.value.sym is not None and e.value.sym.is_monomial():
            rt = [t for t in e.value.tags if isinstance(t, tuple) and t and t[0] == "range"]
            ats = e.value.sym.atoms()
            if rt and len(ats) == 1 and e.value.sym == Poly.atom(next(iter(ats))):
                out[next(iter(ats))] = (rt[0][1], rt[0][2])
    return out


def _wedge(sym, events):
    """[(angle atom, 'pi - a' | 'a', effective range)] for every angle atom of the closed form; None if there is none or the
    closed form is not linear in it."""
    if sym is None:
        return None
    ranges = _angle_ranges(events)
    out = []
    pi = Poly.atom("pi")
    for a in sorted(sym.atoms()):
        if a not in ranges:
            continue
        p1 = sym.diff(a)
        if a in p1.atoms() or p1.is_zero():
            return None
        p0 = sym - p1 * Poly.atom(a)
        comp = (Poly.const(0) - p1) * pi          # the terms K * pi that turn -K * a into K * (pi - a)
        lo, hi = ranges[a]
        if all(p0.terms.get(m) == c for m, c in comp.terms.items()):
            out.append((a, f"pi - {a.split('<')[0]}(...)", (2 - hi, 2 - lo)))
        else:
            neg = all(c < 0 for c in p1.terms.values())
            out.append((a, f"{'-' if neg else ''}{a.split('<')[0]}(...)", (-hi, -lo) if neg else (lo, hi)))
    return out or None


def _is_angle_atom(a):
    return a.startswith(ANGLE_PREFIX) or a.startswith("call<")


def _differs_by_angle_spelling(l, r):
    al = {a for a in l.atoms() if _is_angle_atom(a)}
    ar = {a for a in r.atoms() if _is_angle_atom(a)}
    pi = Poly.atom("pi")
    for a in al - ar:
        for b in ar - al:
            for repl in (Poly.atom(b), pi - Poly.atom(b)):
                if l.subs({a: repl}) == r:
                    return True
    return False


def _ident(res, rule, name, lhs, rhs, fn, deriv=False):
    if lhs is None or rhs is None:
        res.not_in_fragment.append(f"{rule} {name}")
        return
    l = lhs.diff(R) if deriv else lhs
    if l == rhs:
        res.ok(rule, name, sample={"identity": name, "value": str(rhs)[:160]})
    elif _differs_by_angle_spelling(l, rhs):
        # the two sides use differently spelled angles (e.g. arccos(n1.n2) vs pi - get_dihedral): whether those are the same
        # number is a value-level fact -> undecided (ST-6 still judges the range of each spelling)
        res.not_in_fragment.append(f"{rule} {name}: sides agree up to the spelling of the per-edge angle")
    else:
        res.bad(rule, name, f"{fn.file}:{fn.lineno}", f"{name} fails: left side {l}, right side {rhs}")
