"""Translation typing: how a value changes when the whole input is translated by t.

  T0   invariant            (differences of points, normals, lengths, indices, constants)
  T1   covariant position   (p -> p + t)
  TA   affine functional    (n . p  or  R p  with invariant n, R:  changes by n . t)
  MIX  a vector whose entries have different types among T0 / TA (right-hand side of a linear system)
  TX   origin dependent     (|p|, p . p, p**2, a solve with a MIX right-hand side ...)
  None unknown              (no claim)

Only certain facts are recorded: whenever cancellation is possible (TA - TA, weighted sums of positions, ...) the
result is None.  Sinks (rules TR-1..3) fire on T1 / TA / TX / MIX only.
"""

from __future__ import annotations

import ast

TR_ATTR = {
    "_vertices": "T1", "_centroid": "T1", "_normal": "T0", "_radius": "T0", "_a": "T0", "_b": "T0", "_c": "T0",
    "_equations": "EQ", "_simplex_equations": "EQ", "_volume": "T0", "_area": "T0", "_faces": "T0", "_simplices": "T0",
    "_neighbors": "T0", "_simplex_areas": "T0", "_face_centroids": "T1", "_coplanar_simplices": "T0", "edges": "T0",
}
TR_PARAM = {"points": "T1", "angles": "T0", "density": "T0", "scale": "T0", "scale_factor": "T0"}
POSITIONAL = ("T1", "TA", "TX", "MIX")


def tr_of(v):
    if v is None:
        return None
    t = getattr(v, "tr", None)
    if t is None and v.is_number_const():
        return "T0"
    return t


def binop(op, l, r):
    a, b = tr_of(l), tr_of(r)
    if a == "EQ" or b == "EQ":
        return None
    if a is None or b is None:
        return None
    if isinstance(op, ast.Add):
        if a == b == "T0":
            return "T0"
        if {a, b} == {"T0", "T1"}:
            return "T1"
        if a == b == "T1":
            return "TX"
        if "TX" in (a, b) and "T0" in (a, b):
            return "TX"
        return None
    if isinstance(op, ast.Sub):
        if a == b == "T0":
            return "T0"
        if a == b == "T1":
            return "T0"
        if a == "T1" and b == "T0":
            return "T1"
        if a == "TX" and b == "T0":
            return "TX"
        return None
    if isinstance(op, (ast.Mult, ast.Div, ast.FloorDiv)):
        if a == b == "T0":
            return "T0"
        if a == "TA" and b == "T0":
            return "TA"
        if isinstance(op, ast.Mult) and a == "T0" and b == "TA":
            return "TA"
        if a == "TX" and b == "T0" or (isinstance(op, ast.Mult) and a == "T0" and b == "TX"):
            return "TX"
        if isinstance(op, ast.Mult) and {a, b} == {"T0", "T1"}:
            return "P01"     # invariant * position, entry by entry: summed over the coordinate axis it is the functional n . p
        return None      # position * weight: a weighted sum may normalise later
    if isinstance(op, ast.Pow):
        if a == "T0" and b == "T0":
            return "T0"
        if a in ("T1", "TA") and b == "T0":
            return "TX"
        return None
    if isinstance(op, ast.Mod):
        return "T0" if a == b == "T0" else None
    return None


def combine(vals):
    """type of a vector assembled from the given entries (concatenate / array display)."""
    ts = []
    literal = False
    for v in vals:
        if v is None:
            return None
        if v.items is not None and v.kind in ("list", "tuple"):
            if v.items and all(i_ is not None and i_.is_number_const() for i_ in v.items):
                literal = True
                continue
            t = combine(v.items)
        elif v.is_number_const():
            literal = True
            continue                       # a literal entry is compatible with T0 and T1 (padding); with TA see below
        else:
            t = tr_of(v)
        if t is None or t == "EQ":
            return None
        ts.append(t)
    s = set(ts)
    if s == {"T0", "T1"} and all(("alloc" in v.tags) for v in vals if tr_of(v) == "T0" and not v.is_number_const()):
        return "T1"          # positions padded with a zero column / row stay positions
    if not s:
        return "T0"
    if s == {"TA"} and literal:
        # functionals n_i . p next to a literal entry: under a translation the former change by n_i . t, the latter does not -
        # as the right-hand side of a linear system this is a mixed vector (the literal row pins the solution to the origin)
        return "MIX"
    if len(s) == 1:
        return next(iter(s))
    if s <= {"T0", "TA", "MIX"}:
        return "MIX"
    if "TX" in s:
        return "TX"
    return None


def call(name, args, kwargs, result):
    """type of the result of numpy / numpy.linalg function `name` (short name)."""
    a0 = args[0] if args else None
    a1 = args[1] if len(args) > 1 else None
    t0, t1 = tr_of(a0), tr_of(a1)
    if name in ("array", "asarray", "asanyarray", "copy", "atleast_1d", "atleast_2d", "squeeze", "transpose", "ascontiguousarray",
                "reshape", "ravel", "roll", "flip", "negative", "real", "float64", "tile", "repeat"):
        if a0 is not None and a0.items is not None and a0.kind in ("list", "tuple"):
            return combine(a0.items)
        return t0 if t0 != "EQ" else None
    if name in ("concatenate", "hstack", "vstack", "stack", "column_stack", "append", "block"):
        if name == "append":
            return combine([a for a in args[:2]])
        if a0 is not None and a0.items is not None:
            return combine(a0.items)
        return None
    if name in ("dot", "inner", "matmul", "tensordot", "vdot"):
        if t0 == t1 == "T0":
            return "T0"
        if {t0, t1} == {"T0", "T1"}:
            return "TA"
        if t0 == t1 == "T1":
            return "TX"
        if {t0, t1} == {"T0", "TA"}:
            return None
        return None
    if name == "einsum":
        ops = [a for a in args if a.kind != "str"]
        ts = [tr_of(a) for a in ops]
        if ts and all(t == "T0" for t in ts):
            return "T0"
        if len(ts) == 2 and set(ts) == {"T0", "T1"}:
            return "TA"
        return None
    if name == "cross":
        return "T0" if t0 == t1 == "T0" else None
    if name == "norm":
        if t0 == "T0":
            return "T0"
        if t0 in ("T1", "TA"):
            return "TX"
        return t0 if t0 == "TX" else None
    if name in ("abs", "absolute", "sqrt", "square", "sign", "exp", "sin", "cos", "tan", "arctan2", "arccos", "arcsin", "sinc", "log"):
        if t0 == "T0" and (t1 in (None, "T0") or a1 is None):
            return "T0"
        if t0 in ("T1", "TA") and name in ("abs", "absolute", "sqrt", "square"):
            return "TX"
        return None
    if name in ("sum", "max", "min", "amax", "amin", "prod", "nansum", "median", "cumsum", "sort", "unique", "mean", "average",
                "any", "all", "argmax", "argmin", "argsort", "where", "isclose", "allclose", "logical_and", "logical_or", "logical_not",
                "mod", "maximum", "minimum", "multiply", "divide", "add", "subtract", "power", "clip", "round", "floor", "ceil"):
        others = [tr_of(a) for a in args if a is not None and a.kind not in ("str",)]
        if others and all(t == "T0" for t in others):
            return "T0"
        if name == "sum" and t0 == "P01":
            ax = kwargs.get("axis", a1)
            if ax is not None and ax.has_const() and ax.const in (-1, 1) and a0.kind == "arr":
                return "TA"      # sum over the coordinates of n_i * p_i: the row-wise dot product
            return None
        if name == "mean" and t0 == "T1":
            ax = kwargs.get("axis", a1)
            return "T1" if ax is not None else None
        return None
    if name in ("zeros", "ones", "eye", "identity", "zeros_like", "ones_like", "full", "arange", "linspace", "empty", "diag"):
        return "T0"
    if name in ("lstsq", "solve"):
        return None          # handled by the caller (tuple result)
    return None


def solve_types(name, args):
    """type of the solution x of  A x = b."""
    A, b = (args + [None, None])[:2]
    ta, tb = tr_of(A), tr_of(b)
    if ta != "T0":
        return None
    if tb == "T0":
        return "T0"
    if tb == "MIX":
        return "TX"
    return None


def subscript(base, idx):
    t = tr_of(base)
    if t == "EQ":
        items = idx.items if idx.kind == "indextuple" else None
        if items and len(items) == 2:
            it = items[1]
            if it.has_const() and it.const in (3, -1):
                return "TA"
            if it.kind in ("list", "tuple") and it.items is not None and len(it.items) == 1 and it.items[0].has_const() and it.items[0].const in (3, -1):
                return "TA"          # eq[:, [3]]: the offset column kept as a column
            if it.kind == "slice" and it.extra is not None:
                try:
                    hi = ast.literal_eval(it.extra.upper) if it.extra.upper is not None else None
                    lo = ast.literal_eval(it.extra.lower) if it.extra.lower is not None else None
                except Exception:
                    return None
                if hi == 3 and lo in (None, 0):
                    return "T0"
                if lo == 3:
                    return "TA"
            return None
        if items is None and idx.kind in ("int", "idx", "arr", "slice"):
            return "EQ"      # row selection keeps the (n, d) layout
        return None
    if t in ("MIX",):
        return None
    return t


def method(base, name, args, kwargs):
    t = tr_of(base)
    if name in ("copy", "astype", "squeeze", "reshape", "ravel", "flatten", "transpose", "view", "tolist", "conj", "round"):
        return t if t != "EQ" else None
    if name == "dot":
        return call("dot", [base] + list(args), kwargs, None)
    if name == "mean":
        return call("mean", [base] + list(args), kwargs, None)
    if name in ("sum", "max", "min", "prod", "any", "all", "argmax", "argmin", "argsort", "cumsum", "std"):
        return "T0" if t == "T0" else None
    return None
