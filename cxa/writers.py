"""E6 - output-language extraction for the text writers of coxeter.io (abstract string builder).

The writer's statements are interpreted over *skeletons*: Lit(text), Field(kind, fmt), Join(sep, body, over),
Repeat(over, body), Op(droplast / rstrip).  Loops become Repeat nodes (never unrolled); nothing of coxeter runs.
A skeleton is then instantiated with distinct collection sizes and typed sample tokens - a sentence of the
writer's output language - which an independent lark grammar of the file format must accept.
"""

from __future__ import annotations

import ast
from dataclasses import dataclass, field
from typing import List, Optional


class Unsupported(Exception):
    pass


# ----------------------------------------------------------------------------- skeleton nodes
@dataclass
class Lit:
    text: str


@dataclass
class Field:
    kind: str            # FLOAT | INDEX | ARITY | COUNT | SUM | NAME | VERSION | UNKNOWN
    info: object = None  # INDEX: offset ; COUNT: collection ; SUM: list of terms ; FLOAT: provenance
    fmt: Optional[str] = None
    line: int = 0
    post: object = None  # chain of (helper FunctionDef, argument passed as text?) applied to the token (cxa/streval.py)


@dataclass
class Join:
    sep: str
    body: list
    over: str            # 'vertex' (coords of the current vertex) | 'face' (indices of the current face) | ...


@dataclass
class Repeat:
    over: str            # 'vertices' | 'faces' | 'triangles' | 'tri-points'
    body: list


@dataclass
class Op:
    name: str
    arg: object = None


# ----------------------------------------------------------------------------- abstract values
@dataclass
class AV:
    kind: str                 # str | num | coll | elem | other
    parts: list = field(default_factory=list)   # for str
    num: Optional[Field] = None                 # for num
    coll: Optional[str] = None                  # for coll / elem: what it ranges over
    extra: object = None


def S(parts):
    return AV("str", parts=list(parts))


class Extractor:
    def __init__(self, fn_node: ast.FunctionDef, shape_param="shape", helpers=None):
        self.fn = fn_node
        self.shape = shape_param
        self.helpers = helpers or {}     # module-level functions of the writer's module: name -> FunctionDef (inlined)
        self.inline_depth = 0
        self.env = {}
        self.out: list = []          # what reaches the file
        self.notes = []
        self.mode = None             # 'w' / 'wb'
        self.loop_stack: List[list] = []
        self.deepcopied = False
        self.calls = []
        self.skips = []
        self.fan = None
        self.cross = None

    # ---- entry
    def run(self):
        self.block(self.fn.body)
        return self.out

    def emit_to(self):
        return self.loop_stack[-1] if self.loop_stack else None

    # ---- statements
    def block(self, stmts):
        for s in stmts:
            self.stmt(s)

    def stmt(self, s):
        if isinstance(s, ast.Expr):
            if isinstance(s.value, ast.Constant):
                return
            if isinstance(s.value, ast.Call):
                self.call_stmt(s.value)
            return
        if isinstance(s, ast.Assign) and len(s.targets) == 1 and isinstance(s.targets[0], ast.Name):
            name = s.targets[0].id
            self.env[name] = self.ev(s.value)
            if self.env[name].kind == "elem" and self.env[name].coll == "normal":
                self.cross = self.env[name].extra
            return
        if isinstance(s, ast.AugAssign) and isinstance(s.target, ast.Name) and isinstance(s.op, ast.Add):
            name = s.target.id
            cur = self.env.get(name)
            v = self.ev(s.value)
            if cur is not None and cur.kind == "str":
                if v.kind != "str":
                    raise Unsupported(f"line {s.lineno}: non-string appended to {name}")
                if self.loop_stack and name in self.loop_vars():
                    self.loop_stack[-1].extend(self._tag(name, v.parts))
                else:
                    cur.parts.extend(v.parts)
                return
            if cur is not None and cur.kind == "num" and v.kind == "num":
                self.env[name] = AV("num", num=Field("SUM", [cur.num, v.num]))
                return
            self.env[name] = AV("other")
            return
        if isinstance(s, ast.AugAssign):
            return
        if isinstance(s, ast.For):
            self.for_loop(s)
            return
        if isinstance(s, ast.With):
            for item in s.items:
                c = item.context_expr
                if isinstance(c, ast.Call) and ast.unparse(c.func) == "open":
                    mode = ast.literal_eval(c.args[1]) if len(c.args) > 1 else "r"
                    self.mode = mode
                    if item.optional_vars is not None:
                        self.env[item.optional_vars.id] = AV("file")
            self.block(s.body)
            return
        if isinstance(s, ast.If):
            # writers have no output-relevant branches; branches without string effects are skipped
            if self.loop_stack:
                for sub in ast.walk(s):
                    if isinstance(sub, (ast.Continue, ast.Break, ast.Return)):
                        self.skips.append((s.lineno, ast.unparse(s.test)[:60], type(sub).__name__.lower()))
                        break
            for sub in ast.walk(s):
                if isinstance(sub, ast.Call) and ast.unparse(sub.func).endswith(".write"):
                    raise Unsupported(f"line {s.lineno}: conditional output")
                if isinstance(sub, ast.AugAssign) and isinstance(sub.target, ast.Name) and self.env.get(sub.target.id, AV("x")).kind == "str":
                    raise Unsupported(f"line {s.lineno}: conditional output")
            return
        if isinstance(s, (ast.Assign,)):
            return
        return

    def loop_vars(self):
        return {n for n, v in self.env.items() if v.kind == "str"}

    def _tag(self, name, parts):
        return [("var", name, p) for p in parts]

    def call_stmt(self, c: ast.Call):
        f = ast.unparse(c.func)
        if f.endswith(".write") and isinstance(c.func, ast.Attribute) and isinstance(c.func.value, ast.Name) \
                and self.env.get(c.func.value.id, AV("x")).kind == "file":
            v = self.ev(c.args[0])
            if v.kind != "str":
                raise Unsupported(f"line {c.lineno}: write() of a non-string")
            if self.loop_stack:
                self.loop_stack[-1].extend(("file", None, p) for p in v.parts)
            else:
                self.out.extend(v.parts)
            return
        self.calls.append(f)

    def for_loop(self, s: ast.For):
        it = self.ev(s.iter)
        over = None
        if it.kind == "coll":
            over = it.coll
        elif it.kind == "elem" and it.coll in ("face", "vertex", "triangle"):
            over = it.coll + "-items"
        if over is None:
            # loops that do not range over shape data (e.g. enumerate(mins)) must not produce output
            for sub in ast.walk(s):
                if isinstance(sub, ast.Call) and ast.unparse(sub.func).endswith(".write"):
                    raise Unsupported(f"line {s.lineno}: output inside a loop over unknown data")
            return
        # bind loop variable
        elem_kind = {"vertices": "vertex", "faces": "face", "triangles": "triangle", "triangle-items": "tri-point",
                     "face-items": "index", "vertex-items": "coord"}.get(over, "item")
        if isinstance(s.target, ast.Name):
            self.env[s.target.id] = AV("elem", coll=elem_kind)
        self.loop_stack.append([])
        self.block(s.body)
        body = self.loop_stack.pop()
        # split by destination
        by_dest = {}
        for dest, name, p in body:
            by_dest.setdefault((dest, name), []).append(p)
        for (dest, name), parts in by_dest.items():
            rep = Repeat(over, parts)
            if self.loop_stack:
                self.loop_stack[-1].append((dest, name, rep))
            elif dest == "file":
                self.out.append(rep)
            else:
                self.env[name].parts.append(rep)

    # ---- expressions
    def ev(self, n) -> AV:
        if isinstance(n, ast.Constant):
            if isinstance(n.value, str):
                return S([Lit(n.value)] if n.value else [])
            if isinstance(n.value, (int, float)):
                return AV("num", num=Field("CONST", n.value))
            return AV("other")
        if isinstance(n, ast.JoinedStr):
            parts = []
            for v in n.values:
                if isinstance(v, ast.Constant):
                    parts.append(Lit(v.value))
                else:
                    fmt = ast.unparse(v.format_spec) if v.format_spec is not None else None
                    if v.conversion not in (-1, None):
                        fmt = (fmt or "") + "!" + chr(v.conversion)
                    x = self.ev(v.value)
                    if x.kind == "str":
                        parts.extend(x.parts)
                    elif x.kind == "num":
                        parts.append(Field(x.num.kind, x.num.info, fmt, getattr(v, "lineno", 0)))
                    else:
                        parts.append(Field("UNKNOWN", ast.unparse(v.value), fmt, getattr(v, "lineno", 0)))
            return S(parts)
        if isinstance(n, ast.Name):
            if n.id == self.shape:
                return AV("shape")
            if n.id == "__version__":
                return AV("num", num=Field("VERSION"))
            return self.env.get(n.id, AV("other"))
        if isinstance(n, ast.Attribute):
            src = ast.unparse(n)
            if src in (f"{self.shape}.vertices",):
                return AV("coll", coll="vertices")
            if src == f"{self.shape}.faces":
                return AV("coll", coll="faces")
            if src == f"{self.shape}.edges":
                return AV("coll", coll="edges")
            if src == f"{self.shape}.__class__.__name__":
                return AV("num", num=Field("NAME"))
            return AV("other")
        if isinstance(n, ast.BinOp) and isinstance(n.op, ast.Add):
            l, r = self.ev(n.left), self.ev(n.right)
            if l.kind == "str" and r.kind == "str":
                return S(l.parts + r.parts)
            if l.kind == "num" and r.kind == "num":
                if l.num.kind == "INDEX" and r.num.kind == "CONST":
                    return AV("num", num=Field("INDEX", l.num.info + r.num.info))
                if r.num.kind == "INDEX" and l.num.kind == "CONST":
                    return AV("num", num=Field("INDEX", r.num.info + l.num.info))
                return AV("num", num=Field("SUM", [l.num, r.num]))
            return AV("other")
        if isinstance(n, ast.BinOp) and isinstance(n.op, ast.Sub):
            l, r = self.ev(n.left), self.ev(n.right)
            if l.kind == "num" and r.kind == "num" and l.num.kind == "INDEX" and r.num.kind == "CONST":
                return AV("num", num=Field("INDEX", l.num.info - r.num.info))
            return AV("other")
        if isinstance(n, ast.Subscript):
            base = self.ev(n.value)
            if base.kind == "str":
                sl = n.slice
                if isinstance(sl, ast.Slice) and sl.lower is None and sl.upper is not None:
                    try:
                        k = ast.literal_eval(sl.upper)
                    except Exception:
                        raise Unsupported("string slice")
                    if isinstance(k, int) and k < 0:
                        return S(base.parts + [Op("droplast", -k)])
                raise Unsupported("string subscript")
            if base.kind == "elem" and base.coll in ("vertex", "tri-point", "normal"):
                return AV("num", num=Field("FLOAT", base.coll))
            if base.kind == "elem" and base.coll == "face":
                return AV("num", num=Field("INDEX", 0))
            if base.kind == "coll" and base.coll == "vertices":
                return AV("elem", coll="vertex")
            if base.kind == "elem" and base.coll == "triangle":
                return AV("elem", coll="tri-point")
            return AV("other")
        if isinstance(n, ast.Call):
            return self.call(n)
        if isinstance(n, ast.ListComp) or isinstance(n, ast.GeneratorExp):
            v = self.comp(n)
            if v.kind == "coll" and v.coll == "triangles":
                self.fan = v.extra
            return v
        if isinstance(n, ast.List):
            return AV("other")
        return AV("other")

    def comp(self, n):
        if len(n.generators) != 1:
            return AV("other")
        g = n.generators[0]
        # fan triangulation  [[vs[f[0]], vs[b], vs[c]] for b, c in zip(f[1:], f[2:])]
        if isinstance(g.iter, ast.Call) and ast.unparse(g.iter.func) == "zip" and isinstance(n.elt, ast.List) and len(n.elt.elts) == 3:
            zargs = [ast.unparse(a).replace(" ", "") for a in g.iter.args]
            elts = [ast.unparse(e).replace(" ", "") for e in n.elt.elts]
            tnames = [t.id for t in g.target.elts] if isinstance(g.target, ast.Tuple) else []
            # structure without names: zip(F[i:], F[j:]) over one face variable F; rows V[F[k]], V[t_a], V[t_b]
            facevar = None
            lowers = []
            for a in g.iter.args:
                lo = None
                if isinstance(a, ast.Subscript) and isinstance(a.value, ast.Name) and isinstance(a.slice, ast.Slice) \
                        and a.slice.upper is None and a.slice.step is None and isinstance(a.slice.lower, ast.Constant):
                    v = self.env.get(a.value.id)
                    if v is not None and v.kind == "elem" and v.coll == "face" and facevar in (None, a.value.id):
                        facevar = a.value.id
                        lo = a.slice.lower.value
                lowers.append(lo)
            rows = []
            for e in n.elt.elts:
                r = None
                if isinstance(e, ast.Subscript):
                    base = self.ev(e.value)
                    if base.kind == "coll" and base.coll == "vertices":
                        ix = e.slice
                        if isinstance(ix, ast.Name) and ix.id in tnames:
                            r = ("target", tnames.index(ix.id))
                        elif isinstance(ix, ast.Subscript) and isinstance(ix.value, ast.Name) and ix.value.id == facevar \
                                and isinstance(ix.slice, ast.Constant):
                            r = ("face", ix.slice.value)
                rows.append(r)
            return AV("coll", coll="triangles", extra={"zip": zargs, "elts": elts, "targets": tnames, "line": n.lineno,
                                                        "lowers": lowers, "rows": rows})
        it = self.ev(g.iter)
        over = None
        if it.kind == "elem" and it.coll in ("vertex", "face", "tri-point"):
            over = it.coll
            ek = {"vertex": "coord", "face": "index", "tri-point": "coord"}[over]
        elif it.kind == "coll" and it.coll == "faces":
            over = "faces"
            ek = "face"
        else:
            return AV("other")
        saved = dict(self.env)
        if isinstance(g.target, ast.Name):
            if ek == "coord":
                self.env[g.target.id] = AV("num", num=Field("FLOAT", over))
            elif ek == "index":
                self.env[g.target.id] = AV("num", num=Field("INDEX", 0))
            else:
                self.env[g.target.id] = AV("elem", coll=ek)
        elt = self.ev(n.elt)
        self.env = saved
        return AV("comp", coll=over, extra=elt)

    def call(self, n: ast.Call) -> AV:
        f = ast.unparse(n.func)
        if f == "str" or f == "repr":
            x = self.ev(n.args[0])
            if x.kind == "num":
                return S([Field(x.num.kind, x.num.info, None, n.lineno)])
            if x.kind == "str":
                return x
            return S([Field("UNKNOWN", ast.unparse(n.args[0]), None, n.lineno)])
        if f == "int":
            x = self.ev(n.args[0])
            return x
        if f == "float":
            return self.ev(n.args[0])
        if f == "len":
            x = self.ev(n.args[0])
            if x.kind == "coll":
                return AV("num", num=Field("COUNT", x.coll))
            if x.kind == "elem" and x.coll == "face":
                return AV("num", num=Field("ARITY"))
            return AV("other")
        if f == "sum":
            x = self.ev(n.args[0])
            if x.kind == "comp" and x.coll == "faces" and x.extra.kind == "num" and x.extra.num.kind == "ARITY":
                return AV("num", num=Field("SUMARITY"))
            return AV("other")
        if isinstance(n.func, ast.Attribute) and n.func.attr == "join":
            sep = self.ev(n.func.value)
            x = self.ev(n.args[0])
            if sep.kind == "str" and x.kind == "comp":
                septxt = "".join(p.text for p in sep.parts if isinstance(p, Lit))
                body = x.extra.parts if x.extra.kind == "str" else [Field("UNKNOWN", "join element")]
                return S([Join(septxt, body, x.coll)])
            raise Unsupported(f"line {n.lineno}: join over an unrecognised iterable")
        if isinstance(n.func, ast.Attribute) and n.func.attr == "rstrip":
            base = self.ev(n.func.value)
            if base.kind == "str":
                arg = ast.literal_eval(n.args[0]) if n.args else None
                return S(base.parts + [Op("rstrip", arg)])
        if isinstance(n.func, ast.Attribute) and n.func.attr == "encode":
            base = self.ev(n.func.value)
            if base.kind == "str":
                return base
        if f in ("np.cross", "numpy.cross"):
            return AV("elem", coll="normal", extra=n)
        if f in ("deepcopy", "copy.deepcopy"):
            self.deepcopied = True
            return self.ev(n.args[0])
        if f == "zip" or f == "enumerate" or f == "range" or f == "list":
            return AV("other")
        if isinstance(n.func, ast.Name) and f in self.helpers and self.inline_depth < 3 and not n.keywords:
            # a private helper of the module: straight-line body (assignments, then one return) inlined
            h = self.helpers[f]
            params = [a.arg for a in h.args.args]
            body = [b for b in h.body if not (isinstance(b, ast.Expr) and isinstance(b.value, ast.Constant))]
            if len(params) == len(n.args) and body and isinstance(body[-1], ast.Return) and body[-1].value is not None \
                    and all(isinstance(b, ast.Assign) and len(b.targets) == 1 and isinstance(b.targets[0], ast.Name) for b in body[:-1]):
                argv = [self.ev(a) for a in n.args]
                saved = self.env
                self.env = dict(saved)
                self.env.update(dict(zip(params, argv)))
                self.inline_depth += 1
                try:
                    for b in body[:-1]:
                        self.env[b.targets[0].id] = self.ev(b.value)
                    out = self.ev(body[-1].value)
                finally:
                    self.inline_depth -= 1
                    self.env = saved
                if out.kind != "other" and not (out.kind == "str" and any(isinstance(p_, Field) and p_.kind == "UNKNOWN" for p_ in out.parts)):
                    return out
            # a token formatter the symbolic builder cannot follow (conditionals on the text): keep the field typed and
            # remember the helper; the token is produced by abstract evaluation of the helper per token class (cxa/streval.py)
            argv = [self.ev(a) for a in n.args]
            if len(argv) == 1:
                a0 = argv[0]
                fld, as_text = None, False
                if a0.kind == "num" and a0.num.kind in ("FLOAT", "INDEX"):
                    fld = a0.num
                elif a0.kind == "str" and len(a0.parts) == 1 and isinstance(a0.parts[0], Field) and a0.parts[0].kind in ("FLOAT", "INDEX"):
                    fld, as_text = a0.parts[0], True
                if fld is not None:
                    chain = list(fld.post or []) + [(h, as_text)]
                    return S([Field(fld.kind, fld.info, fld.fmt, n.lineno, post=chain)])
        return AV("other")


# ----------------------------------------------------------------------------- instantiation
# one representative per class of float spellings (str(float)): D.D, -D.D, D.De-DD, D.0, long mantissa with exponent,
# 17 significant digits, De-DD and De+DD (no decimal point)
SAMPLE_FLOATS = ["0.1", "-2.25", "1.5e-07", "3.0", "-4.000000000000001e+16", "0.30000000000000004", "7.0", "1e-07", "-2e+22",
                 "1.2345678901234567e-06", "0.012345678901234568", "123456789.12345678"]


class Instance:
    def __init__(self, nv=5, arities=(3, 4, 5), ne=7, name="Polyhedron", version="0.9.0"):
        self.nv = nv
        self.arities = list(arities)
        self.ne = ne
        self.name = name
        self.version = version
        self._f = 0
        self._i = 0
        self.fields = []      # (kind, rendered, context)

    def render(self, parts, ctx=None):
        ctx = ctx or {}
        out = ""
        for p in parts:
            if isinstance(p, Lit):
                out += p.text
            elif isinstance(p, Field):
                out += self.field(p, ctx)
            elif isinstance(p, Join):
                n = {"vertex": 3, "tri-point": 3, "face": ctx.get("arity", 3)}.get(p.over, 3)
                items = []
                for k in range(n):
                    c2 = dict(ctx)
                    c2["k"] = k
                    items.append(self.render(p.body, c2))
                out += p.sep.join(items)
            elif isinstance(p, Repeat):
                if p.over == "vertices":
                    for i in range(self.nv):
                        out += self.render(p.body, dict(ctx, vertex=i))
                elif p.over == "faces":
                    for i, a in enumerate(self.arities):
                        out += self.render(p.body, dict(ctx, face=i, arity=a))
                elif p.over == "triangles":
                    for t in range(max(ctx.get("arity", 3) - 2, 0)):
                        out += self.render(p.body, dict(ctx, tri=t))
                elif p.over in ("triangle-items",):
                    for k in range(3):
                        out += self.render(p.body, dict(ctx, k=k))
                elif p.over == "face-items":
                    for k in range(ctx.get("arity", 3)):
                        out += self.render(p.body, dict(ctx, k=k))
                elif p.over == "vertex-items":
                    for k in range(3):
                        out += self.render(p.body, dict(ctx, k=k))
                else:
                    raise Unsupported(f"repeat over {p.over}")
            elif isinstance(p, Op):
                if p.name == "droplast":
                    out = out[:-p.arg]
                elif p.name == "rstrip":
                    out = out.rstrip(p.arg) if p.arg is not None else out.rstrip()
        return out

    def field(self, f: Field, ctx):
        if f.kind == "FLOAT":
            s = SAMPLE_FLOATS[self._f % len(SAMPLE_FLOATS)]
            self._f += 1
            orig = s
            if f.fmt:
                try:
                    s = format(float(s), f.fmt)
                except Exception:
                    pass
            if f.post:
                from .streval import NotPure, eval_helper
                val = float(s) if not f.fmt else s
                try:
                    for (h, as_text) in f.post:
                        val = eval_helper(h, [str(val) if (as_text and not isinstance(val, str)) else val])
                    s = val if isinstance(val, str) else "<?>"
                except NotPure:
                    s = "<?>"
            ctx = dict(ctx, sample=orig)
        elif f.kind == "INDEX":
            # cover the smallest and the largest vertex index
            base = [0, self.nv - 1, 1, 2, 3][self._i % 5]
            self._i += 1
            s = str(base + (f.info or 0))
        elif f.kind == "ARITY":
            s = str(ctx.get("arity", 3))
        elif f.kind == "COUNT":
            s = str({"vertices": self.nv, "faces": len(self.arities), "edges": self.ne}.get(f.info, -1))
        elif f.kind == "SUMARITY":
            s = str(sum(self.arities))
        elif f.kind == "SUM":
            s = str(sum(int(self.field(t, ctx)) for t in f.info))
        elif f.kind == "NAME":
            s = self.name
        elif f.kind == "VERSION":
            s = self.version
        elif f.kind == "CONST":
            s = str(f.info)
        else:
            s = "<?>"
        self.fields.append((f.kind, s, dict(ctx), f))
        return s


def all_fields(parts):
    for p in parts:
        if isinstance(p, Field):
            yield p
        elif isinstance(p, (Join, Repeat)):
            yield from all_fields(p.body)


def describe(parts, depth=0):
    out = []
    for p in parts:
        if isinstance(p, Lit):
            out.append(repr(p.text))
        elif isinstance(p, Field):
            out.append(f"<{p.kind}{'+' + str(p.info) if p.kind == 'INDEX' and p.info else ''}{':' + p.fmt if p.fmt else ''}{'(' + str(p.info) + ')' if p.kind == 'COUNT' else ''}>")
        elif isinstance(p, Join):
            out.append(f"join({p.sep!r}, {describe(p.body)} over {p.over})")
        elif isinstance(p, Repeat):
            out.append(f"repeat[{p.over}]({describe(p.body)})")
        elif isinstance(p, Op):
            out.append(f"|{p.name}({p.arg!r})")
    return " ".join(out)
