"""REF-1: the inertia tensor is computed about the centre of mass before the parallel-axis shift.

`inertia_tensor` = translate_inertia_tensor(self.center, self._compute_inertia_tensor(), volume): the shift is the
parallel-axis theorem, valid only for a tensor taken about the centroid.  Rule: in the inlined run of the getter,
every subtraction whose left operand is the triangle / tetrahedron coordinate array (depends on the vertices through
the simplices / faces) and whose right operand is a *point* (does not depend on the simplices as coordinates, i.e. not
an edge vector) must subtract the centroid itself (the stored `_centroid`, or the value of the centroid / center
getter).  Decides the reference point only, not the quadrature.
"""

from __future__ import annotations

from .index import AnalysisError, FuncInfo
from .interp import Interp


def _centroid_like(v):
    if any(loc[1] == "_centroid" for loc in v.al):
        return True
    if v.deps and all(loc[1] == "_centroid" for loc in v.deps):
        return True    # a copy of the stored centroid
    return any(isinstance(t, tuple) and t[0] == "getter-of" and t[1] in ("centroid", "center") for t in v.tags)


def check_reference_point(res, index, cls_name, rule="REF-1"):
    cls = index.cls(cls_name)
    p = index.effective_prop(cls, "inertia_tensor")
    if p is None or p.getter is None:
        raise AnalysisError(f"anchor vanished: {cls_name}.inertia_tensor")
    it = Interp(index)
    r = it.run_entry(p.getter, cls)
    label = f"{cls_name}.inertia_tensor"
    kernel = [e for e in r["events"] if e.type == "enter" and not e.entry and e.callee.name == "_compute_inertia_tensor"]
    if not kernel:
        res.not_in_fragment.append(f"{rule}: {label} does not call _compute_inertia_tensor")
        return
    good = 0
    bad = None
    for e in r["events"]:
        if e.type != "sub" or "_compute_inertia_tensor" not in " ".join(e.path):
            continue
        l, rr = e.left, e.right
        if ("self", "_vertices") not in l.deps:
            continue
        coords = {("self", "_simplices"), ("self", "_faces")} & l.deps
        if not coords:
            continue
        if _centroid_like(rr):
            good += 1
            continue
        # an edge vector (difference of two simplex corners) or a per-simplex quantity: not a reference point
        if rr.deps & {("self", "_simplices"), ("self", "_faces")}:
            continue
        if ("self", "_vertices") in rr.deps or rr.al or rr.pdeps:
            bad = (e, rr)
    if bad is not None:
        e, rr = bad
        res.bad(rule, f"{label}:reference", e.where(), f"`{e.src()[:70]}` measures the simplex coordinates from a point that is not the centroid "
                "although the getter then applies the parallel-axis shift from self.center: wrong whenever that point differs from the centre of mass")
    elif good == 0:
        res.bad(rule, f"{label}:uncentred", f"{p.getter.file}:{p.getter.lineno}", f"{label}: the kernel never subtracts the centroid from the simplex "
                "coordinates although the result is shifted by the parallel-axis theorem from self.center")
    else:
        res.ok(rule, label, sample={"getter": label, "centroid_subtractions": good})
