"""MEMO-2: a local memo table must be keyed by everything its values depend on.

A *memo* is a dict created in a function and used in one of the look-up-or-compute idioms

    A   if K not in D: D[K] = V                 ... D[K] read afterwards
    B   if K in D: x = D[K]   else: x = V; D[K] = x
    C   x = D.get(K);  if x is None: x = V; D[K] = x
    D   try: x = D[K]   except KeyError: x = V; D[K] = x

inside a loop that does not enclose the creation of D.  The stored value V is traced back (through the local
assignments of the function) to the loop-carried sources it is computed from: targets of the enclosing `for` loops,
refined by the constant subscript applied to them (`eqn[:3]`, `eqn[3]`).  Every loop-carried source of V has to be
determined by the key K:

  * K uses the same target whole, or with the same constant subscript, or
  * K uses the enumerate index of the loop (which determines every other target of that loop).

A source of V taken from a loop target that K does not use at all, or from provably different elements of it
(`eqn[3]` against `eqn[:3]`), makes a later iteration with an equal key reuse the value of an earlier one although
its own inputs differ - the memo returns a wrong value for inputs that share a key (two parallel faces at different
offsets, two rows with equal leading columns).  Subscripts the rule cannot compare leave the instance undecided.

Dicts that are plain indices (`edge -> faces`, first-occurrence maps) do not match the idioms above, because there the
branch that stores does not produce the variable the other branch reads.
"""

from __future__ import annotations

import ast

NOMINAL = 24          # nominal axis length for comparing constant subscripts


def _is_dict_ctor(v):
    if isinstance(v, ast.Dict) and not v.keys:
        return True
    if isinstance(v, ast.Call):
        f = v.func
        name = f.id if isinstance(f, ast.Name) else (f.attr if isinstance(f, ast.Attribute) else "")
        if name in ("dict", "OrderedDict") and not v.args and not v.keywords:
            return True
        if name == "defaultdict":
            return True
    return False


class _Fn:
    def __init__(self, fn):
        self.fn = fn
        self.parent = {}
        for p in ast.walk(fn):
            for c in ast.iter_child_nodes(p):
                self.parent[c] = p
        self.assigns = {}            # name -> list of (value expr | ("elem", expr) , stmt)
        self.loop_targets = {}       # name -> list of (For node, role)   role: "index" | "zip" | "elem"
        self.params = {a.arg for a in ast.walk(fn.args) if isinstance(a, ast.arg)}
        for n in ast.walk(fn):
            if isinstance(n, ast.Assign):
                for t in n.targets:
                    self._bind(t, n.value, n)
            elif isinstance(n, ast.AugAssign) and isinstance(n.target, ast.Name):
                self.assigns.setdefault(n.target.id, []).append((n.value, n))
            elif isinstance(n, ast.AnnAssign) and n.value is not None:
                self._bind(n.target, n.value, n)
            elif isinstance(n, ast.NamedExpr):
                self._bind(n.target, n.value, n)
            elif isinstance(n, ast.For):
                self._loop(n)

    def _bind(self, t, value, stmt):
        if isinstance(t, ast.Name):
            self.assigns.setdefault(t.id, []).append((value, stmt))
        elif isinstance(t, (ast.Tuple, ast.List)):
            if isinstance(value, (ast.Tuple, ast.List)) and len(value.elts) == len(t.elts):
                for a, b in zip(t.elts, value.elts):
                    self._bind(a, b, stmt)
            else:
                for a in t.elts:
                    self._bind(a, value, stmt)

    def _loop(self, loop):
        it = loop.iter
        fname = it.func.id if isinstance(it, ast.Call) and isinstance(it.func, ast.Name) else None
        t = loop.target
        if fname == "enumerate" and isinstance(t, ast.Tuple) and len(t.elts) == 2:
            self._targets(t.elts[0], loop, "index")
            self._targets(t.elts[1], loop, "elem")
        elif fname == "range":
            self._targets(t, loop, "index")
        elif fname == "zip":
            self._targets(t, loop, "zip")
        else:
            self._targets(t, loop, "elem")

    def _targets(self, t, loop, role):
        if isinstance(t, ast.Name):
            self.loop_targets.setdefault(t.id, []).append((loop, role))
        elif isinstance(t, (ast.Tuple, ast.List)):
            for e in t.elts:
                self._targets(e, loop, role if role != "elem" else "zip")

    def enclosing_loops(self, node):
        out = []
        p = self.parent.get(node)
        while p is not None and p is not self.fn:
            if isinstance(p, (ast.For, ast.While)):
                out.append(p)
            p = self.parent.get(p)
        return out

    # ---------------------------------------------------------------- sources
    def sources(self, expr, loops, seen=None):
        """set of (loop node, target name, selector text | None) the expression is computed from."""
        seen = seen if seen is not None else set()
        out = set()
        if expr is None:
            return out
        if isinstance(expr, ast.Subscript) and isinstance(expr.value, ast.Name):
            nm = expr.value.id
            lt = [(lp, role) for lp, role in self.loop_targets.get(nm, []) if lp in loops]
            if lt:
                sel = _const_selector(expr.slice)
                for lp, role in lt:
                    out.add((lp, nm, sel if sel is not None else "?" + ast.unparse(expr.slice)))
                if sel is None:
                    out |= self.sources(expr.slice, loops, seen)
                return out
        if isinstance(expr, ast.Name):
            n = expr
            lt = [(lp, role) for lp, role in self.loop_targets.get(n.id, []) if lp in loops]
            for lp, role in lt:
                out.add((lp, n.id, None))
            if lt or n.id in seen:
                return out
            seen.add(n.id)
            for value, stmt in self.assigns.get(n.id, []):
                out |= self.sources(value, loops, seen)
            return out
        if isinstance(expr, (ast.Lambda, ast.FunctionDef)):
            return out
        for c in ast.iter_child_nodes(expr):
            if isinstance(c, (ast.expr, ast.comprehension, ast.keyword, ast.slice if hasattr(ast, "slice") else ast.expr)):
                out |= self.sources(c, loops, seen)
        return out


def _names(expr):
    """Name loads of an expression; a subscripted loop target is handled by the caller, so descend manually."""
    stack = [expr]
    while stack:
        n = stack.pop()
        if isinstance(n, ast.Name):
            yield n
        elif isinstance(n, (ast.Lambda, ast.FunctionDef)):
            continue
        else:
            stack.extend(ast.iter_child_nodes(n))


def _const_selector(sl):
    """canonical text of a constant subscript (ints / slices with literal bounds / tuples of those), else None."""
    def ok(e):
        if e is None:
            return True
        if isinstance(e, ast.Constant) and isinstance(e.value, int):
            return True
        if isinstance(e, ast.UnaryOp) and isinstance(e.op, ast.USub) and isinstance(e.operand, ast.Constant) and isinstance(e.operand.value, int):
            return True
        return False
    if isinstance(sl, ast.Slice):
        return ast.unparse(sl) if ok(sl.lower) and ok(sl.upper) and ok(sl.step) else None
    if ok(sl) and sl is not None:
        return ast.unparse(sl)
    if isinstance(sl, ast.Tuple):
        parts = [_const_selector(e) for e in sl.elts]
        return ", ".join(parts) if all(p is not None for p in parts) else None
    return None


def _index_set(sel):
    """indices along the first axis selected by a constant selector text on an axis of nominal length."""
    first = sel.split(",")[0].strip()
    try:
        v = eval(f"list(range({NOMINAL}))[{first}]", {"__builtins__": {"list": list, "range": range}})  # noqa: S307 - literal ints only
    except Exception:
        return None
    return set(v) if isinstance(v, list) else {v}


def _sub_store(stmt):
    """(dict name, key expr, value expr) for `D[K] = V`   (also the chained form x = D[K] = V)."""
    if isinstance(stmt, ast.Assign):
        for t in stmt.targets:
            if isinstance(t, ast.Subscript) and isinstance(t.value, ast.Name):
                return t.value.id, t.slice, stmt.value
    return None


def _reads(node, d, key_dump):
    for n in ast.walk(node):
        if isinstance(n, ast.Subscript) and isinstance(n.ctx, ast.Load) and isinstance(n.value, ast.Name) and n.value.id == d \
                and ast.dump(n.slice) == key_dump:
            return True
        if isinstance(n, ast.Call) and isinstance(n.func, ast.Attribute) and n.func.attr == "get" and isinstance(n.func.value, ast.Name) \
                and n.func.value.id == d and n.args and ast.dump(n.args[0]) == key_dump:
            return True
    return False


def _membership(test):
    """(dict name, key expr, negated) for `K in D` / `K not in D` / `not K in D`."""
    neg = False
    if isinstance(test, ast.UnaryOp) and isinstance(test.op, ast.Not):
        neg, test = True, test.operand
    if isinstance(test, ast.Compare) and len(test.ops) == 1 and isinstance(test.comparators[0], ast.Name):
        if isinstance(test.ops[0], ast.NotIn):
            return test.comparators[0].id, test.left, not neg
        if isinstance(test.ops[0], ast.In):
            return test.comparators[0].id, test.left, neg
    return None


def find_memos(fn_node):
    """-> list of dict(dict=name, key=text, line, status 'ok' | 'bad' | 'undecided', why)"""
    F = _Fn(fn_node)
    created = {}
    for name, lst in F.assigns.items():
        for value, stmt in lst:
            if _is_dict_ctor(value):
                created.setdefault(name, stmt)
    out = []
    if not created:
        return out

    def blocks():
        for n in ast.walk(fn_node):
            for fld in ("body", "orelse", "finalbody"):
                b = getattr(n, fld, None)
                if isinstance(b, list) and b and isinstance(b[0], ast.stmt):
                    yield b

    found = []        # (dict name, key expr, value expr, store stmt)
    for block in blocks():
        for i, s in enumerate(block):
            if isinstance(s, ast.If):
                m = _membership(s.test)
                if m and m[0] in created:
                    d, key, negated = m
                    miss, hit = (s.body, s.orelse) if negated else (s.orelse, s.body)
                    stores = [x for st in miss for x in [_sub_store(st)] if x and x[0] == d and ast.dump(x[1]) == ast.dump(key)]
                    if not stores:
                        continue
                    kd = ast.dump(key)
                    after = any(_reads(t, d, kd) for t in block[i + 1:])
                    in_hit = any(_reads(t, d, kd) for t in hit)
                    if after or in_hit:
                        # first-occurrence maps: the hit branch reads D[K] but the miss branch does not produce that variable
                        if in_hit and not after and not _same_var(hit, miss, d, kd):
                            continue
                        found.append((d, key, stores[0][2], s))
                # idiom C: x = D.get(K) ... if x is None
                if isinstance(s.test, ast.Compare) and len(s.test.ops) == 1 and isinstance(s.test.ops[0], ast.Is) \
                        and isinstance(s.test.left, ast.Name) and isinstance(s.test.comparators[0], ast.Constant) \
                        and s.test.comparators[0].value is None:
                    x = s.test.left.id
                    for value, stmt in F.assigns.get(x, []):
                        if isinstance(value, ast.Call) and isinstance(value.func, ast.Attribute) and value.func.attr == "get" \
                                and isinstance(value.func.value, ast.Name) and value.func.value.id in created and value.args:
                            d, key = value.func.value.id, value.args[0]
                            stores = [y for st in s.body for y in [_sub_store(st)] if y and y[0] == d and ast.dump(y[1]) == ast.dump(key)]
                            if stores:
                                found.append((d, key, stores[0][2], s))
            elif isinstance(s, ast.Try):
                for h in s.handlers:
                    if h.type is not None and "KeyError" in ast.unparse(h.type):
                        stores = [y for st in h.body for y in [_sub_store(st)] if y and y[0] in created]
                        for d, key, val in stores:
                            if any(_reads(t, d, ast.dump(key)) for t in s.body):
                                found.append((d, key, val, s))
    for d, key, val, site in found:
        loops = [lp for lp in F.enclosing_loops(site) if lp not in F.enclosing_loops(created[d]) and isinstance(lp, ast.For)]
        if not loops:
            continue
        # the value may be a name assigned in the miss branch: trace it
        vsrc = F.sources(val, loops)
        ksrc = F.sources(key, loops)
        status, why, code = "ok", "", "complete"
        index_loops = {lp for (lp, nm, sel) in ksrc if sel is None and any(r == "index" and l is lp for l, r in F.loop_targets.get(nm, []))}
        for (lp, nm, sel) in sorted(vsrc, key=lambda t: (t[1], str(t[2]))):
            if lp in index_loops:
                continue
            same = [(l, n, s_) for (l, n, s_) in ksrc if l is lp and n == nm]
            if any(s_ is None or s_ == sel for (_, _, s_) in same):
                continue
            if not same:
                status, why = "bad", (f"the cached value depends on the loop variable `{nm}`" + (f"[{sel}]" if sel else "") +
                                      f", which the key `{ast.unparse(key)}` does not use")
                code = f"value[{sel or 'whole'}]:key-unrelated"
                break
            if sel is None or sel.startswith("?") or any(s_.startswith("?") for (_, _, s_) in same):
                if status == "ok":
                    status, why = "undecided", f"subscripts of `{nm}` in key and value cannot be compared"
                continue
            need = _index_set(sel)
            have = set()
            for (_, _, s_) in same:
                h = _index_set(s_)
                if h is None:
                    need = None
                    break
                have |= h
            if need is None:
                if status == "ok":
                    status, why = "undecided", f"subscripts of `{nm}` in key and value cannot be compared"
                continue
            if not need <= have:
                status, why = "bad", (f"the cached value depends on `{nm}[{sel}]` but the key `{ast.unparse(key)}` only covers "
                                      f"`{nm}[{'], ['.join(sorted(s_ for (_, _, s_) in same))}]`")
                code = f"value[{sel}]:key[{';'.join(sorted(s_ for (_, _, s_) in same))}]"
                break
        out.append({"dict": d, "key": ast.unparse(key), "line": site.lineno, "status": status, "why": why, "code": code})
    return out


def _same_var(hit, miss, d, kd):
    """idiom B: the hit branch binds `x = D[K]` and the miss branch binds the same x."""
    xs = set()
    for st in hit:
        if isinstance(st, ast.Assign) and _reads(st.value, d, kd):
            xs |= {t.id for t in st.targets if isinstance(t, ast.Name)}
    ys = set()
    for st in miss:
        for n in ast.walk(st):
            if isinstance(n, ast.Assign):
                ys |= {t.id for t in n.targets if isinstance(t, ast.Name)}
    return bool(xs & ys)


_POSITIVE = '''
def f(rows, q):
    memo = {}
    out = 0
    for i, row in enumerate(rows):
        k = tuple(row[:3])
        if k not in memo:
            memo[k] = q * row[3]
        out += memo[k]
    return out

def g(rows, q):
    memo = {}
    out = 0
    for row in rows:
        k = tuple(row)
        if k in memo:
            t = memo[k]
        else:
            t = q * row[3]
            memo[k] = t
        out += t
    return out

def h(edges):
    first = {}
    pairs = []
    for i, e in enumerate(edges):
        if e in first:
            pairs.append((first[e], i))
        else:
            first[e] = i
    return pairs
'''


def selfcheck():
    mod = ast.parse(_POSITIVE)
    r = {fn.name: find_memos(fn) for fn in mod.body}
    ok = (len(r["f"]) == 1 and r["f"][0]["status"] == "bad" and len(r["g"]) == 1 and r["g"][0]["status"] == "ok" and r["h"] == [])
    return ok, r


def report_memo(res, index, wanted, rule="MEMO-2"):
    from .index import AnalysisError
    ok, r = selfcheck()
    if not ok:
        raise AnalysisError(f"MEMO-2 recogniser fails its embedded examples: {r}")
    n = 0
    for mname, m in sorted(index.modules.items()):
        if not mname.startswith("coxeter") or "extern" in mname:
            continue
        items = [(None, f) for f in m.functions.values()]
        for c in m.classes.values():
            items += [(c, f) for f in c.methods.values()]
            items += [(c, p.getter) for p in c.props.values() if p.getter] + [(c, p.setter) for p in c.props.values() if p.setter]
        for c, f in items:
            info = {"cls": c.name if c else "", "top": f.name, "func": f.name, "module": mname}
            if not wanted(info):
                continue
            n += 1
            for mm in find_memos(f.node):
                key = f"{(c.name + '.') if c else ''}{f.name}:memo:{mm['code']}"
                if mm["status"] == "bad":
                    res.bad(rule, key, f"{f.file}:{mm['line']}", f"the memo table `{mm['dict']}` is keyed by `{mm['key']}` but {mm['why']}: a later "
                            "iteration with an equal key reuses a value computed from different inputs")
                elif mm["status"] == "ok":
                    res.ok(rule, key)
                else:
                    res.not_in_fragment.append(f"{rule} {key}: {mm['why']}")
    return n
