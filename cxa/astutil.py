"""Small AST helpers shared by the pattern-level rules: look through local temporaries so that a rule sees the
expression a value is computed by, whatever it is called and however the statement is split."""

from __future__ import annotations

import ast


def single_assignments(fn_node):
    """name -> value expression, for locals bound exactly once by a plain `name = expr` in this function
    (nested functions and comprehensions excluded)."""
    counts, values = {}, {}

    def walk(body):
        for s in body:
            for n in _walk_same_scope(s):
                if isinstance(n, ast.Assign):
                    for t in n.targets:
                        for x in ast.walk(t):
                            if isinstance(x, ast.Name):
                                counts[x.id] = counts.get(x.id, 0) + 1
                    if len(n.targets) == 1 and isinstance(n.targets[0], ast.Name):
                        values[n.targets[0].id] = n.value
                elif isinstance(n, (ast.AugAssign, ast.AnnAssign)) and isinstance(n.target, ast.Name):
                    counts[n.target.id] = counts.get(n.target.id, 0) + 2
                elif isinstance(n, (ast.For, ast.comprehension)):
                    for x in ast.walk(n.target):
                        if isinstance(x, ast.Name):
                            counts[x.id] = counts.get(x.id, 0) + 2
                elif isinstance(n, ast.withitem) and n.optional_vars is not None:
                    for x in ast.walk(n.optional_vars):
                        if isinstance(x, ast.Name):
                            counts[x.id] = counts.get(x.id, 0) + 2
    walk(fn_node.body)
    return {k: v for k, v in values.items() if counts.get(k) == 1}


def _walk_same_scope(node):
    """ast.walk that does not descend into nested function / class definitions or lambdas."""
    todo = [node]
    while todo:
        n = todo.pop()
        yield n
        for c in ast.iter_child_nodes(n):
            if isinstance(c, (ast.FunctionDef, ast.AsyncFunctionDef, ast.ClassDef, ast.Lambda)):
                continue
            todo.append(c)


def resolve(expr, fn_node, depth=4, _env=None):
    """`expr` with a top-level local name replaced by the expression it was (once) assigned."""
    env = _env if _env is not None else single_assignments(fn_node)
    d = 0
    while isinstance(expr, ast.Name) and expr.id in env and d < depth:
        expr = env[expr.id]
        d += 1
    return expr


def returns(fn_node):
    """[(return statement, returned expression looked through single-assignment temporaries)] of this function."""
    env = single_assignments(fn_node)
    out = []
    for n in _walk_same_scope(fn_node):
        if isinstance(n, ast.Return) and n.value is not None:
            out.append((n, resolve(n.value, fn_node, _env=env)))
    return out


# ------------------------------------------------------------------------------------------------ constant loops
def _fold_int(e, env):
    """value of an integer expression over literals and the names in `env` (+ - * // % and unary minus), else None."""
    if isinstance(e, ast.Constant) and isinstance(e.value, int) and not isinstance(e.value, bool):
        return e.value
    if isinstance(e, ast.Name) and e.id in env and isinstance(env[e.id], int):
        return env[e.id]
    if isinstance(e, ast.UnaryOp) and isinstance(e.op, ast.USub):
        v = _fold_int(e.operand, env)
        return -v if v is not None else None
    if isinstance(e, ast.BinOp) and isinstance(e.op, (ast.Add, ast.Sub, ast.Mult, ast.FloorDiv, ast.Mod)):
        a, b = _fold_int(e.left, env), _fold_int(e.right, env)
        if a is None or b is None:
            return None
        try:
            return {ast.Add: a + b, ast.Sub: a - b, ast.Mult: a * b}.get(type(e.op)) if not isinstance(e.op, (ast.FloorDiv, ast.Mod)) \
                else (a // b if isinstance(e.op, ast.FloorDiv) else a % b)
        except ZeroDivisionError:
            return None
    if isinstance(e, ast.Call) and isinstance(e.func, ast.Attribute) and e.func.attr in ("mod", "remainder") and len(e.args) == 2 and not e.keywords:
        a, b = _fold_int(e.args[0], env), _fold_int(e.args[1], env)
        return a % b if a is not None and b else None
    return None


class _Subst(ast.NodeTransformer):
    def __init__(self, env, cells):
        self.env, self.cells = env, cells

    def visit_Name(self, n):
        if isinstance(n.ctx, ast.Load) and n.id in self.env and isinstance(self.env[n.id], int):
            return ast.copy_location(ast.Constant(self.env[n.id]), n)
        return n

    def visit_Subscript(self, n):
        self.generic_visit(n)
        if isinstance(n.value, ast.Name) and n.value.id in self.cells:
            i = _fold_int(n.slice, self.env)
            if i is not None and 0 <= i < self.cells[n.value.id]:
                return ast.copy_location(ast.Name(f"{n.value.id}__{i}", n.ctx), n)
        return n

    def visit_BinOp(self, n):
        self.generic_visit(n)
        v = _fold_int(n, {})
        if v is not None and v >= 0:
            return ast.copy_location(ast.Constant(v), n)
        return n


def unroll_constant_loops(fn_node, max_iter=6):
    """a copy of the function in which (at its top level) every `for i in range(<literal>)` / `for i in (<literals>)` without
    break / continue / else is replaced by its unrolled body with `i` (and integer locals computed from it, `b = (a + 1) % 3`)
    substituted as constants - also inside lambdas, which is right only where the lambda is called during the iteration, so
    loops whose lambdas are stored are left alone; small vectors allocated by np.empty / np.zeros (<literal>) that are filled
    by constant-index stores become scalar locals `<name>__<i>`, and `a, b, c = <name>` unpacks them.  The result is a
    normal form for rules that read straight-line code; (copy, number of loops unrolled)."""
    import copy
    fn = copy.deepcopy(fn_node)
    cells = {}
    for s in fn.body:
        if isinstance(s, ast.Assign) and len(s.targets) == 1 and isinstance(s.targets[0], ast.Name) and isinstance(s.value, ast.Call) \
                and isinstance(s.value.func, ast.Attribute) and s.value.func.attr in ("empty", "zeros") and len(s.value.args) == 1 \
                and isinstance(s.value.args[0], ast.Constant) and isinstance(s.value.args[0].value, int) and 0 < s.value.args[0].value <= 6:
            cells[s.targets[0].id] = s.value.args[0].value
    # a cell vector must only be used through constant-index subscripts (checked after unrolling) or whole-vector unpacking
    nloops = 0
    out = []
    for s in fn.body:
        if isinstance(s, ast.For) and isinstance(s.target, ast.Name) and not s.orelse \
                and not any(isinstance(x, (ast.Break, ast.Continue, ast.Return)) for x in ast.walk(s)):
            vals = None
            it = s.iter
            if isinstance(it, ast.Call) and isinstance(it.func, ast.Name) and it.func.id == "range" and len(it.args) == 1 and not it.keywords:
                k = _fold_int(it.args[0], {})
                if k is not None and 0 < k <= max_iter:
                    vals = list(range(k))
            elif isinstance(it, (ast.Tuple, ast.List)) and 0 < len(it.elts) <= max_iter and all(_fold_int(e, {}) is not None for e in it.elts):
                vals = [_fold_int(e, {}) for e in it.elts]
            stored_lambda = any(isinstance(x, ast.Assign) and isinstance(x.value, ast.Lambda) for x in ast.walk(s)) or \
                any(isinstance(x, ast.Call) and isinstance(x.func, ast.Attribute) and x.func.attr == "append" and x.args
                    and isinstance(x.args[0], ast.Lambda) for x in ast.walk(s))
            if vals is not None and not stored_lambda:
                nloops += 1
                for v in vals:
                    env = {s.target.id: v}
                    for b in s.body:
                        b2 = copy.deepcopy(b)
                        # integer locals derived from the loop variable
                        if isinstance(b2, ast.Assign) and len(b2.targets) == 1:
                            t, val = b2.targets[0], b2.value
                            if isinstance(t, ast.Name) and _fold_int(val, env) is not None:
                                env[t.id] = _fold_int(val, env)
                                continue
                            if isinstance(t, ast.Tuple) and isinstance(val, ast.Tuple) and len(t.elts) == len(val.elts) \
                                    and all(isinstance(x, ast.Name) for x in t.elts) and all(_fold_int(x, env) is not None for x in val.elts):
                                for x, y in zip(t.elts, val.elts):
                                    env[x.id] = _fold_int(y, env)
                                continue
                        out.append(ast.fix_missing_locations(_Subst(env, cells).visit(b2)))
                continue
        out.append(s)
    # whole-vector unpacking / constant subscripts of the cell vectors outside the loops
    final = []
    for s in out:
        if isinstance(s, ast.Assign) and len(s.targets) == 1 and isinstance(s.targets[0], ast.Tuple) and isinstance(s.value, ast.Name) \
                and s.value.id in cells and len(s.targets[0].elts) == cells[s.value.id] and all(isinstance(x, ast.Name) for x in s.targets[0].elts):
            for i, x in enumerate(s.targets[0].elts):
                final.append(ast.copy_location(ast.Assign([ast.Name(x.id, ast.Store())], ast.Name(f"{s.value.id}__{i}", ast.Load())), s))
            continue
        final.append(ast.fix_missing_locations(_Subst({}, cells).visit(s)))
    fn.body = final
    # a cell vector still used as a whole (passed on, returned, sliced): the scalarisation is not valid - give up
    for n in ast.walk(fn):
        if isinstance(n, ast.Name) and n.id in cells and isinstance(n.ctx, ast.Load):
            return fn_node, 0
    ast.fix_missing_locations(fn)
    return fn, nloops


def inline_constant_helpers(fn_node):
    """a copy of the function in which (a) calls `helper(<int literals>)` of nested one-expression helpers
    (`def moment(j, k): return integrate(lambda t: t[:, j] ** 2 + t[:, k] ** 2)`) are replaced by the helper's returned
    expression with the parameters substituted, and (b) tuple assignments `a, b, c = e1, e2, e3` at the top level are split
    into single assignments.  A normal form for rules that read `name = integrate(lambda ...)` statements."""
    import copy
    fn = copy.deepcopy(fn_node)
    helpers = {}
    for s in fn.body:
        if isinstance(s, ast.FunctionDef) and not s.args.vararg and not s.args.kwarg and not s.args.kwonlyargs and not s.args.defaults:
            body = [x for x in s.body if not (isinstance(x, ast.Expr) and isinstance(x.value, ast.Constant))]
            if len(body) == 1 and isinstance(body[0], ast.Return) and body[0].value is not None:
                helpers[s.name] = ([a.arg for a in s.args.args], body[0].value)

    class _Inl(ast.NodeTransformer):
        def visit_Call(self, n):
            self.generic_visit(n)
            if isinstance(n.func, ast.Name) and n.func.id in helpers and not n.keywords:
                params, expr = helpers[n.func.id]
                vals = [_fold_int(a, {}) for a in n.args]
                if len(vals) == len(params) and all(v is not None for v in vals):
                    e2 = copy.deepcopy(expr)
                    e2 = _Subst(dict(zip(params, vals)), {}).visit(e2)
                    return ast.copy_location(e2, n)
            return n
    out = []
    changed = False
    for s in fn.body:
        if isinstance(s, ast.FunctionDef) and s.name in helpers:
            out.append(s)
            continue
        s2 = _Inl().visit(s)
        if isinstance(s2, ast.Assign) and len(s2.targets) == 1 and isinstance(s2.targets[0], ast.Tuple) and isinstance(s2.value, ast.Tuple) \
                and len(s2.targets[0].elts) == len(s2.value.elts) and all(isinstance(t, ast.Name) for t in s2.targets[0].elts):
            names = {t.id for t in s2.targets[0].elts}
            if not any(isinstance(x, ast.Name) and x.id in names for v in s2.value.elts for x in ast.walk(v)):       # no swap semantics
                for t, v in zip(s2.targets[0].elts, s2.value.elts):
                    out.append(ast.copy_location(ast.Assign([ast.Name(t.id, ast.Store())], v), s2))
                changed = True
                continue
        out.append(s2)
    fn.body = out
    ast.fix_missing_locations(fn)
    return fn
