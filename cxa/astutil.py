"""Small AST helpers shared by the pattern-level rules: look through local temporaries so that a rule sees the
expression a value is computed by, whatever it is called and however the statement is split."""

from __future__ import annotations

import ast


def single_assignments(fn_node):
    """name -> value expression, for locals bound exactly once by a plain `name = expr` in this function
    (nested functions and comprehensions excluded)."""
    counts, values = {}, {}

    def walk(body):
        for s in body:
            for n in _walk_same_scope(s):
                if isinstance(n, ast.Assign):
                    for t in n.targets:
                        for x in ast.walk(t):
                            if isinstance(x, ast.Name):
                                counts[x.id] = counts.get(x.id, 0) + 1
                    if len(n.targets) == 1 and isinstance(n.targets[0], ast.Name):
                        values[n.targets[0].id] = n.value
                elif isinstance(n, (ast.AugAssign, ast.AnnAssign)) and isinstance(n.target, ast.Name):
                    counts[n.target.id] = counts.get(n.target.id, 0) + 2
                elif isinstance(n, (ast.For, ast.comprehension)):
                    for x in ast.walk(n.target):
                        if isinstance(x, ast.Name):
                            counts[x.id] = counts.get(x.id, 0) + 2
                elif isinstance(n, ast.withitem) and n.optional_vars is not None:
                    for x in ast.walk(n.optional_vars):
                        if isinstance(x, ast.Name):
                            counts[x.id] = counts.get(x.id, 0) + 2
    walk(fn_node.body)
    return {k: v for k, v in values.items() if counts.get(k) == 1}


def _walk_same_scope(node):
    """ast.walk that does not descend into nested function / class definitions or lambdas."""
    todo = [node]
    while todo:
        n = todo.pop()
        yield n
        for c in ast.iter_child_nodes(n):
            if isinstance(c, (ast.FunctionDef, ast.AsyncFunctionDef, ast.ClassDef, ast.Lambda)):
                continue
            todo.append(c)


def resolve(expr, fn_node, depth=4, _env=None):
    """`expr` with a top-level local name replaced by the expression it was (once) assigned."""
    env = _env if _env is not None else single_assignments(fn_node)
    d = 0
    while isinstance(expr, ast.Name) and expr.id in env and d < depth:
        expr = env[expr.id]
        d += 1
    return expr


def returns(fn_node):
    """[(return statement, returned expression looked through single-assignment temporaries)] of this function."""
    env = single_assignments(fn_node)
    out = []
    for n in _walk_same_scope(fn_node):
        if isinstance(n, ast.Return) and n.value is not None:
            out.append((n, resolve(n.value, fn_node, _env=env)))
    return out
