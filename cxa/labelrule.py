"""LABEL-1: no decision depends on the position a vertex / face / edge happens to have in its list.

Cyclically shifting a face's vertex list or relabelling the vertices must change results only by the corresponding
permutation (C09).  A loop counter that ranges over the vertices, faces or edges and is *itself* compared with a
constant (`if i == 0 and ...`, `if k < 2:`) singles out elements by their label.  Counters used as subscripts
(`slopes[i] == 0`) are data accesses and are not touched.  The expected count on the confirmed tree is zero, so the
recogniser is exercised on an embedded positive example on every run."""

from __future__ import annotations

import ast

_POSITIVE = """
def f(self):
    for i in range(len(self.vertices)):
        if i == 0 and self.vertices[i][0] < 0:
            pass
    for j, face in enumerate(self.faces):
        if self.areas[j] == 0:
            pass
"""

COLLECTIONS = ("vertices", "faces", "edges", "simplices", "equations", "normals", "neighbors", "num_vertices", "num_faces", "num_edges",
               "angles_to_vertices", "_vertices", "_faces", "_simplices", "_equations")


def label_comparisons(fn_node):
    """[(compare node, loop variable)] in this function."""
    loopvars = {}
    for n in ast.walk(fn_node):
        if isinstance(n, ast.For) and isinstance(n.iter, ast.Call):
            f = n.iter.func
            name = getattr(f, "id", getattr(f, "attr", ""))
            src = ast.unparse(n.iter)
            # loops over data: range(len(x)), range(self.num_*), enumerate(x); not range(3) / range(max_attempts)
            over_data = any(c in src for c in COLLECTIONS) or "len(" in src or name == "enumerate"
            if name == "range" and isinstance(n.target, ast.Name) and over_data:
                loopvars[n.target.id] = n
            elif name == "enumerate" and isinstance(n.target, ast.Tuple) and n.target.elts and isinstance(n.target.elts[0], ast.Name) and over_data:
                loopvars[n.target.elts[0].id] = n
    out = []
    for var, loop in loopvars.items():
        for n in ast.walk(loop):
            if isinstance(n, ast.Compare):
                sides = [n.left] + list(n.comparators)
                if any(isinstance(s, ast.Name) and s.id == var for s in sides) and any(isinstance(s, ast.Constant) and isinstance(s.value, int)
                                                                                      for s in sides):
                    out.append((n, var))
    return out


def self_check():
    t = ast.parse(_POSITIVE).body[0]
    hits = label_comparisons(t)
    return len(hits) == 1 and hits[0][1] == "i"


def report(res, index, wanted, rule="LABEL-1"):
    from .index import AnalysisError
    if not self_check():
        raise AnalysisError("LABEL-1: the recogniser no longer matches its embedded positive example")
    n = 0
    for mname, m in sorted(index.modules.items()):
        if not mname.startswith("coxeter.shapes"):
            continue
        for c in m.classes.values():
            fns = list(c.methods.values()) + [p.getter for p in c.props.values() if p.getter] + [p.setter for p in c.props.values() if p.setter]
            for f in fns:
                if not wanted(c.name, f.name):
                    continue
                n += 1
                for cmp_, var in label_comparisons(f.node):
                    res.bad(rule, f"{c.name}.{f.name}:{var}", f"{f.file}:{cmp_.lineno}", f"{c.name}.{f.name}: `{ast.unparse(cmp_)[:50]}` compares the loop "
                            f"counter `{var}` (the position of a vertex / face / edge in its list) with a constant: the result depends on how the "
                            "input happens to be labelled (it changes under a cyclic shift of the vertex list)")
    res.ok(rule, "functions scanned, recogniser self-check passed", nontrivial=False, sample={"functions_scanned": n})
